package patterns

// An independent parser for the pattern fragment used by the reference
// semantics (C01/C15/C18). It does not share code with the repository's
// parser. Anything outside the fragment is rejected with an error, and the
// pattern is then simply not used with the spec matcher.

import (
	"fmt"
	"strconv"
	"strings"
)

type parser struct {
	s      []rune
	pos    int
	opts   int  // FI|FM|FS|FR|FE
	n, x   bool // ExplicitCapture, IgnorePatternWhitespace
	caps   []*Node
	named  []*Node
	brefs  []*Node
	crefs  []*Node
	nextAuto int
}

// Options for Parse: bit mask in regexp2 numbering.
const (
	OptI   = 0x1
	OptM   = 0x2
	OptN   = 0x4
	OptS   = 0x10
	OptX   = 0x20
	OptRTL = 0x40
	OptE   = 0x100
	OptRE2 = 0x200
)

func flagsOf(options int) int {
	f := 0
	if options&OptI != 0 {
		f |= FI
	}
	if options&OptM != 0 {
		f |= FM
	}
	if options&OptS != 0 {
		f |= FS
	}
	if options&OptRE2 != 0 {
		f |= FR
	}
	if options&OptE != 0 {
		f |= FE
	}
	return f
}

// Parse parses pattern under the given regexp2 option mask.
func Parse(pattern string, options int) (root *Node, ngroups int, err error) {
	p := &parser{s: []rune(pattern), opts: flagsOf(options), n: options&OptN != 0, x: options&OptX != 0}
	defer func() {
		if r := recover(); r != nil {
			if e, ok := r.(perr); ok {
				err = e
				return
			}
			panic(r)
		}
	}()
	root = p.alt()
	if p.pos < len(p.s) {
		p.fail("unbalanced )")
	}
	ngroups = p.number()
	return root, ngroups, nil
}

type perr string

func (e perr) Error() string { return string(e) }

func (p *parser) fail(msg string) { panic(perr(fmt.Sprintf("%s at %d", msg, p.pos))) }

func (p *parser) more() bool { return p.pos < len(p.s) }
func (p *parser) peek() rune { return p.s[p.pos] }
func (p *parser) next() rune {
	if !p.more() {
		p.fail("unexpected end")
	}
	c := p.s[p.pos]
	p.pos++
	return c
}
func (p *parser) looking(s string) bool {
	r := []rune(s)
	if p.pos+len(r) > len(p.s) {
		return false
	}
	for i, c := range r {
		if p.s[p.pos+i] != c {
			return false
		}
	}
	return true
}

func (p *parser) skipX() {
	if !p.x {
		return
	}
	for p.more() {
		c := p.peek()
		if c == ' ' || c == '\t' || c == '\n' || c == '\r' || c == '\f' || c == '\v' {
			p.pos++
		} else if c == '#' {
			for p.more() && p.peek() != '\n' {
				p.pos++
			}
		} else if p.looking("(?#") {
			for p.more() && p.peek() != ')' {
				p.pos++
			}
			if p.more() {
				p.pos++
			}
		} else {
			return
		}
	}
}

func (p *parser) alt() *Node {
	var branches []*Node
	for {
		branches = append(branches, p.concat())
		if p.more() && p.peek() == '|' {
			p.pos++
			continue
		}
		break
	}
	if len(branches) == 1 {
		return branches[0]
	}
	return &Node{K: Alt, Kids: branches}
}

func (p *parser) concat() *Node {
	var kids []*Node
	for {
		p.skipX()
		if !p.more() || p.peek() == '|' || p.peek() == ')' {
			break
		}
		a := p.atom()
		if a == nil { // inline option group (?i) etc.
			continue
		}
		p.skipX()
		a = p.quant(a)
		kids = append(kids, a)
	}
	if len(kids) == 1 {
		return kids[0]
	}
	if len(kids) == 0 {
		return &Node{K: Empty}
	}
	return &Node{K: Cat, Kids: kids}
}

func (p *parser) quant(a *Node) *Node {
	for p.more() {
		min, max := -2, -2
		save := p.pos
		switch p.peek() {
		case '*':
			p.pos++
			min, max = 0, -1
		case '+':
			p.pos++
			min, max = 1, -1
		case '?':
			p.pos++
			min, max = 0, 1
		case '{':
			p.pos++
			n1, ok := p.num()
			if !ok {
				p.pos = save
				return a
			}
			min, max = n1, n1
			if p.more() && p.peek() == ',' {
				p.pos++
				if n2, ok := p.num(); ok {
					max = n2
				} else {
					max = -1
				}
			}
			if !p.more() || p.peek() != '}' {
				p.pos = save
				return a
			}
			p.pos++
		default:
			return a
		}
		switch a.K {
		case Bol, Eol, BegA, EndZ, Endz, WordB, NWordB, StartG, Look:
			p.fail("quantified zero-width item")
		}
		lazy := false
		if p.more() && p.peek() == '?' {
			p.pos++
			lazy = true
		}
		if p.more() && p.peek() == '+' {
			p.fail("possessive quantifier")
		}
		if max != -1 && max < min {
			p.fail("bad quantifier")
		}
		a = &Node{K: Rep, Min: min, Max: max, Lazy: lazy, Kids: []*Node{a}}
		p.skipX()
	}
	return a
}

func (p *parser) num() (int, bool) {
	st := p.pos
	for p.more() && p.peek() >= '0' && p.peek() <= '9' {
		p.pos++
	}
	if st == p.pos || p.pos-st > 6 {
		return 0, false
	}
	n, _ := strconv.Atoi(string(p.s[st:p.pos]))
	return n, true
}

func (p *parser) setOpts(on, off string) {
	for _, c := range on {
		switch c {
		case 'i':
			p.opts |= FI
		case 'm':
			p.opts |= FM
		case 's':
			p.opts |= FS
		case 'n':
			p.n = true
		case 'x':
			p.x = true
		default:
			p.fail("unsupported inline option")
		}
	}
	for _, c := range off {
		switch c {
		case 'i':
			p.opts &^= FI
		case 'm':
			p.opts &^= FM
		case 's':
			p.opts &^= FS
		case 'n':
			p.n = false
		case 'x':
			p.x = false
		default:
			p.fail("unsupported inline option")
		}
	}
}

func (p *parser) group() *Node {
	// p.pos is after '('
	saveOpts, saveN, saveX := p.opts, p.n, p.x
	restore := func() { p.opts, p.n, p.x = saveOpts, saveN, saveX }
	closeP := func() {
		if !p.more() || p.peek() != ')' {
			p.fail("missing )")
		}
		p.pos++
	}
	if !p.more() || p.peek() != '?' {
		if p.n {
			body := p.alt()
			closeP()
			restore()
			return &Node{K: Grp, Kids: []*Node{body}}
		}
		c := &Node{K: Cap}
		p.caps = append(p.caps, c)
		body := p.alt()
		closeP()
		restore()
		c.Kids = []*Node{body}
		return c
	}
	p.pos++ // '?'
	switch {
	case p.looking(":"):
		p.pos++
		body := p.alt()
		closeP()
		restore()
		return &Node{K: Grp, Kids: []*Node{body}}
	case p.looking("="), p.looking("!"):
		neg := p.next() == '!'
		body := p.alt()
		closeP()
		restore()
		return &Node{K: Look, Neg: neg, Kids: []*Node{body}}
	case p.looking("<="), p.looking("<!"):
		p.pos++
		neg := p.next() == '!'
		body := p.alt()
		closeP()
		restore()
		return &Node{K: Look, Behind: true, Neg: neg, Kids: []*Node{body}}
	case p.looking(">"):
		p.pos++
		body := p.alt()
		closeP()
		restore()
		return &Node{K: Atomic, Kids: []*Node{body}}
	case p.looking("P=") && p.opts&FR != 0:
		// RE2 / Python style back-reference (?P=name)
		p.pos += 2
		st := p.pos
		for p.more() && p.peek() != ')' {
			p.pos++
		}
		name := string(p.s[st:p.pos])
		closeP()
		restore()
		n := &Node{K: Backref, Name: name, F: p.opts}
		p.brefs = append(p.brefs, n)
		return n
	case p.looking("<"), p.looking("'"), p.looking("P<") && p.opts&FR != 0:
		if p.peek() == 'P' {
			p.pos++ // (?P<name>...) is (?<name>...) in RE2 mode
		}
		term := '>'
		if p.next() == '\'' {
			term = '\''
		}
		st := p.pos
		for p.more() && p.peek() != term {
			c := p.peek()
			if !(c == '_' || c >= '0' && c <= '9' || c >= 'a' && c <= 'z' || c >= 'A' && c <= 'Z') {
				p.fail("unsupported group name")
			}
			p.pos++
		}
		name := string(p.s[st:p.pos])
		if name == "" || !p.more() {
			p.fail("bad group name")
		}
		p.pos++
		c := &Node{K: Cap, Name: name}
		p.named = append(p.named, c)
		body := p.alt()
		closeP()
		restore()
		c.Kids = []*Node{body}
		return c
	case p.looking("("):
		p.pos++
		var cond *Node
		if p.looking("?=") {
			p.pos += 2
			cond = p.alt()
			closeP()
			cond = &Node{K: CondExpr, Kids: []*Node{cond}}
		} else {
			st := p.pos
			for p.more() && p.peek() != ')' {
				p.pos++
			}
			ref := string(p.s[st:p.pos])
			closeP()
			c := &Node{K: CondRef, Name: ref}
			p.crefs = append(p.crefs, c)
			cond = c
		}
		yes := p.concat()
		var no *Node = &Node{K: Empty}
		if p.more() && p.peek() == '|' {
			p.pos++
			no = p.concat()
		}
		if p.more() && p.peek() == '|' {
			p.fail("too many | in conditional")
		}
		closeP()
		restore()
		cond.Kids = append(cond.Kids, yes, no)
		return cond
	case p.looking("#"):
		for p.more() && p.peek() != ')' {
			p.pos++
		}
		closeP()
		return nil
	}
	// inline options
	st := p.pos
	for p.more() && strings.ContainsRune("imsnx-", p.peek()) {
		p.pos++
	}
	spec := string(p.s[st:p.pos])
	if spec == "" || !p.more() {
		p.fail("unsupported group construct")
	}
	on, off := spec, ""
	if i := strings.IndexByte(spec, '-'); i >= 0 {
		on, off = spec[:i], spec[i+1:]
		if strings.Contains(off, "-") {
			p.fail("bad options")
		}
	}
	switch p.next() {
	case ')':
		// applies to the rest of the enclosing group
		p.setOpts(on, off)
		return nil
	case ':':
		p.setOpts(on, off)
		body := p.alt()
		closeP()
		restore()
		return &Node{K: Grp, Kids: []*Node{body}}
	}
	p.fail("unsupported group construct")
	return nil
}

func (p *parser) atom() *Node {
	c := p.next()
	switch c {
	case '(':
		return p.group()
	case '[':
		return p.class()
	case '.':
		return &Node{K: Dot, F: p.opts}
	case '^':
		return &Node{K: Bol, F: p.opts}
	case '$':
		return &Node{K: Eol, F: p.opts}
	case '\\':
		return p.escape()
	case '*', '+', '?':
		p.fail("nothing to repeat")
	case ')':
		p.fail("unbalanced )")
	case '{':
		// literal { unless it forms a quantifier (then: nothing to repeat)
		save := p.pos
		if _, ok := p.num(); ok {
			p.fail("possible quantifier at start")
		}
		p.pos = save
	}
	return &Node{K: Lit, Ch: c, F: p.opts}
}

func hexv(c rune) int {
	switch {
	case c >= '0' && c <= '9':
		return int(c - '0')
	case c >= 'a' && c <= 'f':
		return int(c-'a') + 10
	case c >= 'A' && c <= 'F':
		return int(c-'A') + 10
	}
	return -1
}

func (p *parser) hex(n int) rune {
	v := 0
	for i := 0; i < n; i++ {
		h := hexv(p.next())
		if h < 0 {
			p.fail("bad hex")
		}
		v = v*16 + h
	}
	return rune(v)
}

// escChar parses a character escape after the backslash; ok=false if c is not one.
func (p *parser) escChar(c rune) (rune, bool) {
	switch c {
	case 'n':
		return '\n', true
	case 't':
		return '\t', true
	case 'r':
		return '\r', true
	case 'f':
		return '\f', true
	case 'v':
		return '\v', true
	case 'a':
		return 7, true
	case 'e':
		return 27, true
	case 'x':
		return p.hex(2), true
	case 'u':
		return p.hex(4), true
	case '0':
		// \0, \0n, \0nn octal
		v := 0
		for i := 0; i < 2 && p.more() && p.peek() >= '0' && p.peek() <= '7'; i++ {
			v = v*8 + int(p.next()-'0')
		}
		return rune(v), true
	}
	if c == '_' || c >= '0' && c <= '9' || c >= 'a' && c <= 'z' || c >= 'A' && c <= 'Z' {
		return 0, false
	}
	return c, true
}

func (p *parser) catItem(c rune) (Item, bool) {
	switch c {
	case 'd', 'w', 's':
		return Item{Cat: string(c)}, true
	case 'D', 'W', 'S':
		return Item{Cat: strings.ToLower(string(c)), Neg: true}, true
	case 'p', 'P':
		if !p.more() || p.next() != '{' {
			p.fail("unsupported \\p form")
		}
		st := p.pos
		for p.more() && p.peek() != '}' {
			p.pos++
		}
		name := string(p.s[st:p.pos])
		if !p.more() {
			p.fail("bad \\p")
		}
		p.pos++
		if !KnownCategory(name) {
			p.fail("unsupported category " + name)
		}
		return Item{Cat: name, Neg: c == 'P'}, true
	}
	return Item{}, false
}

func (p *parser) escape() *Node {
	c := p.next()
	if it, ok := p.catItem(c); ok {
		return &Node{K: Class, Items: []Item{it}, F: p.opts}
	}
	switch c {
	case 'b':
		return &Node{K: WordB, F: p.opts}
	case 'B':
		return &Node{K: NWordB, F: p.opts}
	case 'A':
		return &Node{K: BegA}
	case 'Z':
		return &Node{K: EndZ}
	case 'z':
		return &Node{K: Endz}
	case 'G':
		return &Node{K: StartG}
	case 'k':
		term := '>'
		switch p.next() {
		case '<':
		case '\'':
			term = '\''
		default:
			p.fail("bad \\k")
		}
		st := p.pos
		for p.more() && p.peek() != term {
			p.pos++
		}
		name := string(p.s[st:p.pos])
		if !p.more() {
			p.fail("bad \\k")
		}
		p.pos++
		n := &Node{K: Backref, Name: name, F: p.opts}
		p.brefs = append(p.brefs, n)
		return n
	}
	if c >= '1' && c <= '9' {
		// back-reference; multi-digit forms are ambiguous and rejected
		if p.more() && p.peek() >= '0' && p.peek() <= '9' {
			p.fail("multi-digit backreference")
		}
		n := &Node{K: Backref, Name: string(c), F: p.opts}
		p.brefs = append(p.brefs, n)
		return n
	}
	if c == 'c' {
		p.fail("control escape")
	}
	if r, ok := p.escChar(c); ok {
		return &Node{K: Lit, Ch: r, F: p.opts}
	}
	p.fail("unsupported escape \\" + string(c))
	return nil
}

func (p *parser) class() *Node {
	n := &Node{K: Class, F: p.opts}
	if p.more() && p.peek() == '^' {
		p.pos++
		n.Neg = true
	}
	first := true
	for {
		if !first && p.looking("-[") {
			// class subtraction: must be the last thing in the class
			p.pos += 2
			n.Sub = p.class()
			if !p.more() || p.next() != ']' {
				p.fail("class subtraction must end the class")
			}
			break
		}
		c := p.next()
		if c == ']' && !first {
			break
		}
		first = false
		var lo rune
		if c == '[' && p.more() && p.peek() == ':' {
			p.fail("posix class")
		}
		if c == '\\' {
			e := p.next()
			if it, ok := p.catItem(e); ok {
				n.Items = append(n.Items, it)
				continue
			}
			if e == 'b' {
				lo = 8
			} else if e == 'c' {
				p.fail("control escape")
			} else if r, ok := p.escChar(e); ok {
				lo = r
			} else {
				p.fail("unsupported escape in class")
			}
		} else {
			lo = c
		}
		if p.pos+1 < len(p.s) && p.peek() == '-' && p.s[p.pos+1] != ']' && p.s[p.pos+1] != '[' {
			p.pos++
			h := p.next()
			var hi rune
			if h == '\\' {
				e := p.next()
				if _, ok := p.catItem(e); ok {
					p.fail("category as range end")
				}
				if e == 'b' {
					hi = 8
				} else if r, ok := p.escChar(e); ok {
					hi = r
				} else {
					p.fail("unsupported escape in class")
				}
			} else if h == '[' {
				p.fail("class subtraction")
			} else {
				hi = h
			}
			if hi < lo {
				p.fail("reversed range")
			}
			n.Items = append(n.Items, Item{Lo: lo, Hi: hi})
			continue
		}
		n.Items = append(n.Items, Item{Lo: lo, Hi: lo})
	}
	return n
}

// number assigns group numbers by the documented rule: unnamed groups by opening
// parenthesis (in pattern order), then named groups in order of first appearance
// (a repeated name shares its number); explicitly numbered groups keep their
// number. Returns the largest group number.
func (p *parser) number() int {
	used := map[int]bool{}
	// explicit numbers first
	byName := map[string]int{}
	for _, c := range p.named {
		if n, err := strconv.Atoi(c.Name); err == nil {
			if n <= 0 {
				p.fail("bad group number")
			}
			c.G = n
			used[n] = true
			byName[c.Name] = n
		}
	}
	k := 0
	for _, c := range p.caps {
		k++
		c.G = k // the k-th unnamed group is number k, explicit numbers are ignored here
		used[k] = true
	}
	next := k + 1
	for _, c := range p.named {
		if c.G != 0 {
			continue
		}
		if g, ok := byName[c.Name]; ok {
			c.G = g
			continue
		}
		for used[next] {
			next++
		}
		c.G = next
		used[next] = true
		byName[c.Name] = next
	}
	max := 0
	for g := range used {
		if g > max {
			max = g
		}
	}
	resolve := func(n *Node) {
		if g, err := strconv.Atoi(n.Name); err == nil {
			if !used[g] {
				p.fail("reference to undefined group")
			}
			n.G = g
			n.Name = ""
			return
		}
		g, ok := byName[n.Name]
		if !ok {
			p.fail("reference to undefined group name")
		}
		n.G = g
	}
	for _, b := range p.brefs {
		resolve(b)
	}
	for _, c := range p.crefs {
		resolve(c)
	}
	return max
}

var knownCats = map[string]bool{"L": true, "Lu": true, "Ll": true, "Lt": true, "Lm": true, "Lo": true, "M": true, "Mn": true, "Mc": true,
	"N": true, "Nd": true, "Nl": true, "No": true, "P": true, "Pc": true, "Pd": true, "Ps": true, "Pe": true, "Po": true,
	"S": true, "Sm": true, "Sc": true, "Sk": true, "So": true, "Z": true, "Zs": true, "Zl": true, "Zp": true, "C": true, "Cc": true, "Cf": true,
	"Greek": true, "Cyrillic": true, "Latin": true}

func KnownCategory(name string) bool { return knownCats[name] }
