package patterns

import (
	"fmt"
	"strings"
)

// Class expressions for C16: each has its pattern text and the reference AST
// (s-expression for the harness-side set algebra).

type ClassExpr struct {
	Text  string // "[...]"
	Sexpr string
}

type citem struct {
	text  string
	sexpr string
	ascii bool // usable under IgnoreCase (ASCII end-points / simple-pair members)
	cat   bool
	posix bool
	prop  bool // \p / \P
}

func r1(c rune) citem {
	return citem{text: escClassCh(c), sexpr: fmt.Sprintf("(r %d %d)", c, c), ascii: true}
}

func rr(lo, hi rune) citem {
	return citem{text: escClassCh(lo) + "-" + escClassCh(hi), sexpr: fmt.Sprintf("(r %d %d)", lo, hi), ascii: lo < 128 && hi < 128}
}

// ci marks an item as usable under IgnoreCase although its end-points are not ASCII.
func ci(it citem) citem { it.ascii = true; return it }

func sh(c byte) citem {
	neg := 0
	lc := strings.ToLower(string(c))
	if string(c) != lc {
		neg = 1
	}
	return citem{text: `\` + string(c), sexpr: fmt.Sprintf("(c %s %d)", lc, neg), ascii: true, cat: true}
}

func pp(name string, neg bool) citem {
	t := `\p{` + name + `}`
	n := 0
	if neg {
		t = `\P{` + name + `}`
		n = 1
	}
	return citem{text: t, sexpr: fmt.Sprintf("(c %s %d)", name, n), cat: true, prop: true, ascii: true}
}

func posix(name string) citem {
	return citem{text: "[:" + name + ":]", sexpr: fmt.Sprintf("(c posix_%s 0)", name), cat: true, posix: true, ascii: true}
}

func classItems() []citem {
	return []citem{
		r1('a'), r1('b'), r1('m'), r1('z'), r1('A'), r1('Z'), r1('0'), r1('9'), r1('_'), r1(' '), r1('\n'), r1('-'), r1('é'), r1('σ'), r1('ж'), r1('k'), r1(0x10000),
		rr('a', 'c'), rr('a', 'z'), rr('A', 'Z'), rr('0', '9'), rr('b', 'y'), rr(0, 0x7f), rr('б', 'д'), rr('α', 'ω'), rr(0x80, 0x10FFFF), rr('X', 'c'),
		// cased letters outside ASCII whose case partner is a simple pair (usable under IgnoreCase): Latin-1,
		// Cyrillic, fullwidth forms (above the end of the BMP upper->lower table), Deseret and Adlam (astral)
		ci(r1('é')), ci(r1('Ж')), ci(rr('б', 'д')), ci(rr(0xFF41, 0xFF5A)), ci(r1(0xFF31)), ci(r1(0x10428)), ci(rr(0x10400, 0x10427)), ci(r1(0x1E922)),
		sh('d'), sh('w'), sh('s'), sh('D'), sh('W'), sh('S'),
		pp("Lu", false), pp("Ll", false), pp("L", true), pp("Nd", false), pp("Greek", false), pp("Cyrillic", true), pp("P", false), pp("Lu", true), pp("Zs", false), pp("Mn", false),
		posix("alpha"), posix("digit"), posix("upper"), posix("space"), posix("word"), posix("alnum"), posix("punct"), posix("xdigit"),
	}
}

// ClassExprs enumerates class expressions for an option mode: "", "i", "e" (ECMAScript), "r" (RE2).
// perShape bounds the number of expressions per structural shape (0 = all).
func ClassExprs(mode string, seed int, full bool) []ClassExpr {
	var items []citem
	for _, it := range classItems() {
		if it.posix && mode != "r" {
			continue
		}
		if it.prop && mode == "e" {
			continue
		}
		if mode == "i" && !it.ascii {
			continue
		}
		items = append(items, it)
	}
	flags := 0
	switch mode {
	case "i":
		flags = FI
	case "e":
		flags = FE
	case "r":
		flags = FR
	}
	var out []ClassExpr
	seen := map[string]bool{}
	add := func(neg bool, its []citem, sub *ClassExpr) {
		var tb, sb strings.Builder
		tb.WriteString("[")
		n := 0
		if neg {
			tb.WriteString("^")
			n = 1
		}
		fmt.Fprintf(&sb, "(cls %d %d", n, flags)
		for _, it := range its {
			tb.WriteString(it.text)
			sb.WriteString(" " + it.sexpr)
		}
		if sub != nil {
			tb.WriteString("-" + sub.Text)
			sb.WriteString(" (sub " + sub.Sexpr + ")")
		}
		tb.WriteString("]")
		sb.WriteString(")")
		if !seen[tb.String()] {
			seen[tb.String()] = true
			out = append(out, ClassExpr{tb.String(), sb.String()})
		}
	}
	pick := func(s string, mod uint64) bool { return full || hashStr(s, seed)%mod == 0 }
	// one item, both polarities
	for _, a := range items {
		add(false, []citem{a}, nil)
		add(true, []citem{a}, nil)
	}
	// two items
	for i, a := range items {
		for j, b := range items {
			if i == j {
				continue
			}
			if pick(a.text+b.text, 6) {
				add(false, []citem{a, b}, nil)
			}
			if pick(b.text+a.text+"^", 12) {
				add(true, []citem{a, b}, nil)
			}
		}
	}
	// three items
	for i, a := range items {
		for j, b := range items {
			for k, c := range items {
				if i == j || j == k || i == k {
					continue
				}
				if pick(a.text+b.text+c.text, 400) {
					add(false, []citem{a, b, c}, nil)
				}
			}
		}
	}
	// subtraction (depth 1 and 2); RE2 has no subtraction syntax
	if mode != "r" {
		base := append([]ClassExpr(nil), out...)
		for _, a := range items {
			for _, s := range base {
				if strings.Contains(s.Text, "-[") {
					continue
				}
				if pick(a.text+"-"+s.Text, 60) {
					sc := s
					add(false, []citem{a}, &sc)
				}
			}
		}
		lvl1 := out[len(base):]
		for _, a := range items {
			for _, s := range lvl1 {
				if pick(a.text+"--"+s.Text, 120) {
					sc := s
					add(false, []citem{a}, &sc)
				}
			}
		}
	}
	// structural classes: bases that the compiler normalises to "everything" / "nothing" / a negated form,
	// alone and with a subtraction (always generated; subtraction not under RE2, which has no such syntax)
	usable := func(its []citem) bool {
		for _, it := range its {
			if it.prop && mode == "e" || mode == "i" && !it.ascii {
				return false
			}
		}
		return true
	}
	mk := func(neg bool, its []citem, sub *ClassExpr) *ClassExpr {
		before := len(out)
		add(neg, its, sub)
		if len(out) > before {
			return &out[len(out)-1]
		}
		return nil
	}
	bases := []struct {
		neg bool
		its []citem
	}{{false, []citem{sh('s'), sh('S')}}, {false, []citem{sh('d'), sh('D')}}, {false, []citem{sh('W'), sh('w')}}, {false, []citem{rr(0, 0x10FFFF)}}, {false, []citem{pp("L", false), pp("L", true)}},
		{false, []citem{rr(0, 0x7f), rr(0x80, 0x10FFFF)}}, {true, []citem{rr(0, 0x10FFFF)}}, {true, []citem{sh('s'), sh('S')}}, {false, []citem{rr('a', 'z'), rr('0', '9')}}, {false, []citem{sh('w')}},
		{true, []citem{r1('a')}}, {true, []citem{sh('d')}}, {false, []citem{rr(0, 'a'), rr('c', 0x10FFFF)}},
		// every rune but one in the ranges, plus a category that does / does not contain the missing rune,
		// the category before and after the ranges, both polarities
		{true, []citem{sh('d'), rr(0, 9), rr(0xB, 0x10FFFF)}}, {false, []citem{sh('d'), rr(0, 9), rr(0xB, 0x10FFFF)}},
		{true, []citem{rr(0, 9), rr(0xB, 0x10FFFF), sh('d')}}, {true, []citem{sh('w'), rr(0, '`'), rr('b', 0x10FFFF)}},
		{false, []citem{sh('w'), rr(0, '`'), rr('b', 0x10FFFF)}}, {true, []citem{sh('s'), rr(0, 'l'), rr('n', 0x10FFFF)}},
		{true, []citem{pp("Lu", false), rr(0, 0x2F), rr(0x31, 0x10FFFF)}}, {true, []citem{rr(0, 'l'), rr('n', 0x10FFFF)}},
		{true, []citem{rr(0, 'l'), rr('n', 0x10FFFF), r1('m')}}, {false, []citem{rr(0, 0xD7FF), rr(0xE000, 0x10FFFF)}}}
	subs := []struct {
		neg bool
		its []citem
		sub []citem // nested subtraction
	}{{false, []citem{r1('a')}, nil}, {false, []citem{rr('a', 'c')}, nil}, {false, []citem{rr('0', '9')}, []citem{r1('5')}}, {false, []citem{sh('d')}, nil}, {true, []citem{r1('a')}, nil},
		{false, []citem{r1('é')}, nil}, {false, []citem{rr('A', 'C')}, nil}, {false, []citem{r1(0x10000)}, nil}, {false, []citem{sh('s'), sh('S')}, nil}, {false, []citem{r1('k')}, nil}}
	for _, b := range bases {
		if !usable(b.its) {
			continue
		}
		mk(b.neg, b.its, nil)
		if mode == "r" {
			continue
		}
		for _, sb := range subs {
			if !usable(sb.its) || !usable(sb.sub) {
				continue
			}
			// build the subtracted class without registering it as a class of its own
			save, saveSeen := out, seen
			out, seen = nil, map[string]bool{}
			var inner *ClassExpr
			if sb.sub != nil {
				add(false, sb.sub, nil)
				in := out[0]
				inner = &in
				out, seen = nil, map[string]bool{}
			}
			add(sb.neg, sb.its, inner)
			sc := out[0]
			out, seen = save, saveSeen
			mk(b.neg, b.its, &sc)
		}
	}
	return out
}
