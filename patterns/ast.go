// Package patterns holds the driver-side pattern machinery: an AST for the
// pattern fragment of the properties, a printer (AST -> pattern text), an
// independent parser (pattern text -> AST), enumerators, the shape library and
// the corpus harvester (DESIGN.md section 3).
package patterns

import (
	"fmt"
	"strings"
)

type Kind int

const (
	Lit Kind = iota
	Dot
	Class
	Cat
	Alt
	Rep
	Cap
	Grp
	Look
	Atomic
	Backref
	CondRef
	CondExpr
	Bol
	Eol
	BegA
	EndZ
	Endz
	WordB
	NWordB
	StartG
	Empty
)

// Option flags carried by nodes (resolved by the parser / generator).
const (
	FI = 1  // IgnoreCase
	FM = 2  // Multiline
	FS = 4  // Singleline
	FR = 8  // RE2
	FE = 16 // ECMAScript
)

type Item struct {
	Lo, Hi rune
	Cat    string // "d","w","s" or a Unicode category name; empty for a range
	Neg    bool
}

type Node struct {
	K      Kind
	Ch     rune
	Items  []Item
	Neg    bool
	Kids   []*Node
	Min    int
	Max    int // -1 = unbounded
	Lazy   bool
	G      int    // group number
	Name   string // group name (printing)
	Behind bool
	F      int
	Sub    *Node // Class only: subtracted class ([base-[sub]])
	// OptOn/OptOff: for Grp nodes printed as (?imsnx-imsnx:...)
	OptOn, OptOff string
}

func N(k Kind, kids ...*Node) *Node { return &Node{K: k, Kids: kids} }
func L(ch rune) *Node               { return &Node{K: Lit, Ch: ch} }

// Sexpr prints the AST in the form the harness-side spec matcher reads.
func (n *Node) Sexpr() string {
	var sb strings.Builder
	n.sexpr(&sb)
	return sb.String()
}

func b2i(b bool) int {
	if b {
		return 1
	}
	return 0
}

func (n *Node) sexpr(sb *strings.Builder) {
	kids := func() {
		for _, k := range n.Kids {
			sb.WriteString(" ")
			k.sexpr(sb)
		}
		sb.WriteString(")")
	}
	switch n.K {
	case Lit:
		fmt.Fprintf(sb, "(lit %d %d)", n.Ch, n.F)
	case Dot:
		fmt.Fprintf(sb, "(dot %d)", n.F)
	case Class:
		fmt.Fprintf(sb, "(cls %d %d", b2i(n.Neg), n.F)
		for _, it := range n.Items {
			if it.Cat != "" {
				fmt.Fprintf(sb, " (c %s %d)", it.Cat, b2i(it.Neg))
			} else {
				fmt.Fprintf(sb, " (r %d %d)", it.Lo, it.Hi)
			}
		}
		if n.Sub != nil {
			sb.WriteString(" (sub ")
			n.Sub.sexpr(sb)
			sb.WriteString(")")
		}
		sb.WriteString(")")
	case Cat:
		sb.WriteString("(cat")
		kids()
	case Alt:
		sb.WriteString("(alt")
		kids()
	case Grp:
		sb.WriteString("(grp")
		kids()
	case Cap:
		fmt.Fprintf(sb, "(cap %d", n.G)
		kids()
	case Rep:
		fmt.Fprintf(sb, "(rep %d %d %d", n.Min, n.Max, b2i(n.Lazy))
		kids()
	case Look:
		fmt.Fprintf(sb, "(look %d %d", b2i(n.Behind), b2i(n.Neg))
		kids()
	case Atomic:
		sb.WriteString("(atom")
		kids()
	case Backref:
		fmt.Fprintf(sb, "(ref %d %d)", n.G, n.F)
	case CondRef:
		fmt.Fprintf(sb, "(cref %d", n.G)
		kids()
	case CondExpr:
		sb.WriteString("(cexp")
		kids()
	case Bol:
		fmt.Fprintf(sb, "(bol %d)", n.F)
	case Eol:
		fmt.Fprintf(sb, "(eol %d)", n.F)
	case BegA:
		sb.WriteString("(bega)")
	case EndZ:
		sb.WriteString("(endZ)")
	case Endz:
		sb.WriteString("(endz)")
	case WordB:
		fmt.Fprintf(sb, "(wb %d)", n.F)
	case NWordB:
		fmt.Fprintf(sb, "(nwb %d)", n.F)
	case StartG:
		sb.WriteString("(startg)")
	case Empty:
		sb.WriteString("(empty)")
	default:
		panic("sexpr: kind")
	}
}

const meta = `\.+*?()|[]{}^$#`

func escLit(ch rune, xmode bool) string {
	switch ch {
	case '\n':
		return `\n`
	case '\t':
		return `\t`
	case '\r':
		return `\r`
	case '\f':
		return `\f`
	case '\v':
		return `\v`
	case ' ':
		if xmode {
			return `\ `
		}
		return " "
	}
	if strings.ContainsRune(meta, ch) {
		return `\` + string(ch)
	}
	if ch < 0x20 || ch == 0x7f {
		return fmt.Sprintf(`\x%02x`, ch)
	}
	return string(ch)
}

func escClassCh(ch rune) string {
	switch ch {
	case '\n':
		return `\n`
	case '\t':
		return `\t`
	case '\r':
		return `\r`
	case ']', '[', '\\', '^', '-':
		return `\` + string(ch)
	}
	if ch < 0x20 || ch == 0x7f {
		return fmt.Sprintf(`\x%02x`, ch)
	}
	return string(ch)
}

func catText(it Item) string {
	switch it.Cat {
	case "d", "w", "s":
		c := it.Cat
		if it.Neg {
			c = strings.ToUpper(c)
		}
		return `\` + c
	}
	if it.Neg {
		return `\P{` + it.Cat + `}`
	}
	return `\p{` + it.Cat + `}`
}

// Print renders the AST as pattern text. With xmode, insignificant white space
// is inserted between items and literal white space / '#' are escaped.
func (n *Node) Print(xmode bool) string {
	var sb strings.Builder
	n.print(&sb, xmode, 0)
	return sb.String()
}

// precedence: 0 = alternation context, 1 = concatenation, 2 = quantified atom
func (n *Node) print(sb *strings.Builder, x bool, prec int) {
	sep := func() {
		if x {
			sb.WriteString(" ")
		}
	}
	switch n.K {
	case Lit:
		sb.WriteString(escLit(n.Ch, x))
	case Dot:
		sb.WriteString(".")
	case Class:
		if len(n.Items) == 1 && n.Items[0].Cat != "" && !n.Neg && n.Sub == nil {
			sb.WriteString(catText(n.Items[0]))
			return
		}
		sb.WriteString("[")
		if n.Neg {
			sb.WriteString("^")
		}
		for _, it := range n.Items {
			if it.Cat != "" {
				sb.WriteString(catText(it))
			} else if it.Lo == it.Hi {
				sb.WriteString(escClassCh(it.Lo))
			} else {
				sb.WriteString(escClassCh(it.Lo) + "-" + escClassCh(it.Hi))
			}
		}
		if n.Sub != nil {
			sb.WriteString("-")
			n.Sub.print(sb, x, 2)
		}
		sb.WriteString("]")
	case Cat:
		if prec >= 2 {
			sb.WriteString("(?:")
		}
		for i, k := range n.Kids {
			if i > 0 {
				sep()
			}
			k.print(sb, x, 1)
		}
		if len(n.Kids) == 0 && prec >= 2 {
			// empty
		}
		if prec >= 2 {
			sb.WriteString(")")
		}
	case Alt:
		if prec >= 1 {
			sb.WriteString("(?:")
		}
		for i, k := range n.Kids {
			if i > 0 {
				sb.WriteString("|")
			}
			k.print(sb, x, 0)
		}
		if prec >= 1 {
			sb.WriteString(")")
		}
	case Grp:
		sb.WriteString("(?")
		if n.OptOn != "" || n.OptOff != "" {
			sb.WriteString(n.OptOn)
			if n.OptOff != "" {
				sb.WriteString("-" + n.OptOff)
			}
		}
		sb.WriteString(":")
		n.Kids[0].print(sb, x, 0)
		sb.WriteString(")")
	case Cap:
		if n.Name != "" {
			sb.WriteString("(?<" + n.Name + ">")
		} else {
			sb.WriteString("(")
		}
		n.Kids[0].print(sb, x, 0)
		sb.WriteString(")")
	case Rep:
		n.Kids[0].print(sb, x, 2)
		switch {
		case n.Min == 0 && n.Max == -1:
			sb.WriteString("*")
		case n.Min == 1 && n.Max == -1:
			sb.WriteString("+")
		case n.Min == 0 && n.Max == 1:
			sb.WriteString("?")
		case n.Max == -1:
			fmt.Fprintf(sb, "{%d,}", n.Min)
		case n.Min == n.Max:
			fmt.Fprintf(sb, "{%d}", n.Min)
		default:
			fmt.Fprintf(sb, "{%d,%d}", n.Min, n.Max)
		}
		if n.Lazy {
			sb.WriteString("?")
		}
	case Look:
		s := "(?"
		if n.Behind {
			s += "<"
		}
		if n.Neg {
			s += "!"
		} else {
			s += "="
		}
		sb.WriteString(s)
		n.Kids[0].print(sb, x, 0)
		sb.WriteString(")")
	case Atomic:
		sb.WriteString("(?>")
		n.Kids[0].print(sb, x, 0)
		sb.WriteString(")")
	case Backref:
		if n.Name != "" {
			sb.WriteString(`\k<` + n.Name + `>`)
		} else {
			fmt.Fprintf(sb, `\%d`, n.G)
		}
	case CondRef:
		if n.Name != "" {
			sb.WriteString("(?(" + n.Name + ")")
		} else {
			fmt.Fprintf(sb, "(?(%d)", n.G)
		}
		n.Kids[0].print(sb, x, 1)
		sb.WriteString("|")
		n.Kids[1].print(sb, x, 1)
		sb.WriteString(")")
	case CondExpr:
		sb.WriteString("(?(?=")
		n.Kids[0].print(sb, x, 0)
		sb.WriteString(")")
		n.Kids[1].print(sb, x, 1)
		sb.WriteString("|")
		n.Kids[2].print(sb, x, 1)
		sb.WriteString(")")
	case Bol:
		sb.WriteString("^")
	case Eol:
		sb.WriteString("$")
	case BegA:
		sb.WriteString(`\A`)
	case EndZ:
		sb.WriteString(`\Z`)
	case Endz:
		sb.WriteString(`\z`)
	case WordB:
		sb.WriteString(`\b`)
	case NWordB:
		sb.WriteString(`\B`)
	case StartG:
		sb.WriteString(`\G`)
	case Empty:
		sb.WriteString("(?:)")
	default:
		panic("print: kind")
	}
}

// Walk visits every node.
func (n *Node) Walk(f func(*Node)) {
	f(n)
	for _, k := range n.Kids {
		k.Walk(f)
	}
	if n.Sub != nil {
		n.Sub.Walk(f)
	}
}

// Clone deep-copies the AST.
func (n *Node) Clone() *Node {
	c := *n
	c.Items = append([]Item(nil), n.Items...)
	c.Kids = make([]*Node, len(n.Kids))
	for i, k := range n.Kids {
		c.Kids[i] = k.Clone()
	}
	if n.Sub != nil {
		c.Sub = n.Sub.Clone()
	}
	return &c
}

// SetFlags sets the option flags on every node.
func (n *Node) SetFlags(f int) *Node {
	n.Walk(func(m *Node) { m.F = f })
	return n
}

// MaxGroup returns the largest group number.
func (n *Node) MaxGroup() int {
	g := 0
	n.Walk(func(m *Node) {
		if m.K == Cap && m.G > g {
			g = m.G
		}
	})
	return g
}

// Nullable reports whether n can match the empty string (conservative: true when unsure).
func (n *Node) Nullable() bool {
	switch n.K {
	case Lit, Dot, Class:
		return false
	case Cat:
		for _, k := range n.Kids {
			if !k.Nullable() {
				return false
			}
		}
		return true
	case Alt:
		for _, k := range n.Kids {
			if k.Nullable() {
				return true
			}
		}
		return false
	case Grp, Cap, Atomic:
		return n.Kids[0].Nullable()
	case Rep:
		return n.Min == 0 || n.Kids[0].Nullable()
	case CondRef:
		return n.Kids[0].Nullable() || n.Kids[1].Nullable()
	case CondExpr:
		return n.Kids[1].Nullable() || n.Kids[2].Nullable()
	case Backref:
		return true
	}
	return true
}

// InFragmentC01 checks the C01 fragment rule: every quantified sub-pattern is
// non-nullable and is neither a bare quantified item nor reducible to one.
func (n *Node) InFragmentC01() bool {
	ok := true
	n.Walk(func(m *Node) {
		if m.K == Rep {
			k := m.Kids[0]
			if k.Nullable() {
				ok = false
			}
			// strip grouping that the engine's reducer strips too
			for k.K == Grp || k.K == Atomic || (k.K == Cat && len(k.Kids) == 1) || (k.K == Alt && len(k.Kids) == 1) {
				k = k.Kids[0]
			}
			if k.K == Rep {
				ok = false
			}
		}
	})
	return ok
}
