package patterns

import (
	"fmt"
	"hash/fnv"
	"sort"
	"strings"
)

// Pat is one pattern with its provenance and (when the independent parser
// accepts it) its reference AST.
type Pat struct {
	Text    string
	AST     *Node // nil if outside the parsable fragment
	NGroups int
	Source  string // "enum", "shape:<mechanism>", "corpus"
}

func atomSet() []*Node {
	cls := func(neg bool, items ...Item) *Node { return &Node{K: Class, Neg: neg, Items: items} }
	return []*Node{
		L('a'), L('b'), L('c'),
		cls(false, Item{Lo: 'a', Hi: 'b'}),
		cls(true, Item{Lo: 'a', Hi: 'a'}),
		{K: Dot},
		cls(false, Item{Cat: "w"}),
		cls(false, Item{Cat: "d"}),
		L('\n'),
		{K: Bol}, {K: Eol}, {K: WordB}, {K: StartG},
	}
}

func zeroWidth(n *Node) bool {
	switch n.K {
	case Bol, Eol, BegA, EndZ, Endz, WordB, NWordB, StartG, Look, Empty:
		return true
	}
	return false
}

type genCfg struct {
	look, atomic, backref, cond, lazy, caps bool
}

// enumerate returns all ASTs with exactly size nodes (memoised by size).
func enumerate(size int, memo map[int][]*Node, cfg genCfg) []*Node {
	if r, ok := memo[size]; ok {
		return r
	}
	var out []*Node
	if size == 1 {
		out = atomSet()
		memo[size] = out
		return out
	}
	// unary constructors over size-1
	for _, k := range enumerate(size-1, memo, cfg) {
		if cfg.caps {
			out = append(out, &Node{K: Cap, Kids: []*Node{k}})
		}
		if !zeroWidth(k) && !k.Nullable() && k.K != Rep {
			qs := [][3]int{{0, 1, 0}, {0, -1, 0}, {1, -1, 0}, {2, 2, 0}, {1, 2, 0}}
			if cfg.lazy {
				qs = append(qs, [3]int{0, -1, 1}, [3]int{1, -1, 1}, [3]int{0, 1, 1}, [3]int{1, 2, 1})
			}
			for _, q := range qs {
				out = append(out, &Node{K: Rep, Min: q[0], Max: q[1], Lazy: q[2] == 1, Kids: []*Node{k}})
			}
		}
		if cfg.look && k.K != Look {
			out = append(out, &Node{K: Look, Kids: []*Node{k}}, &Node{K: Look, Neg: true, Kids: []*Node{k}},
				&Node{K: Look, Behind: true, Kids: []*Node{k}}, &Node{K: Look, Behind: true, Neg: true, Kids: []*Node{k}})
		}
		if cfg.atomic && k.K != Atomic && !zeroWidth(k) {
			out = append(out, &Node{K: Atomic, Kids: []*Node{k}})
		}
	}
	// binary constructors
	for ls := 1; ls <= size-2; ls++ {
		rs := size - 1 - ls
		for _, l := range enumerate(ls, memo, cfg) {
			for _, r := range enumerate(rs, memo, cfg) {
				if l.K != Cat { // canonical right-nested concatenation is flattened below
					kids := []*Node{l}
					if r.K == Cat {
						kids = append(kids, r.Kids...)
					} else {
						kids = append(kids, r)
					}
					out = append(out, &Node{K: Cat, Kids: kids})
				}
				if l.K != Alt {
					kids := []*Node{l}
					if r.K == Alt {
						kids = append(kids, r.Kids...)
					} else {
						kids = append(kids, r)
					}
					out = append(out, &Node{K: Alt, Kids: kids})
				}
			}
		}
	}
	memo[size] = out
	return out
}

func signature(n *Node) string {
	var sb strings.Builder
	var rec func(n *Node)
	rec = func(n *Node) {
		switch n.K {
		case Lit:
			sb.WriteString("l")
		case Class, Dot:
			sb.WriteString("c")
		case Bol, Eol, WordB, StartG, NWordB, BegA, EndZ, Endz:
			sb.WriteString("z")
		default:
			fmt.Fprintf(&sb, "(%d", n.K)
			if n.K == Rep {
				fmt.Fprintf(&sb, "q%d,%d,%v", n.Min, n.Max, n.Lazy)
			}
			if n.K == Look {
				fmt.Fprintf(&sb, "%v%v", n.Behind, n.Neg)
			}
			for _, k := range n.Kids {
				rec(k)
			}
			sb.WriteString(")")
		}
	}
	rec(n)
	return sb.String()
}

func hashStr(s string, seed int) uint64 {
	h := fnv.New64a()
	fmt.Fprintf(h, "%d|%s", seed, s)
	return h.Sum64()
}

// numberGroups assigns capture numbers in order of opening parenthesis and adds,
// where a group exists, back-reference / conditional variants.
func numberGroups(n *Node) int {
	g := 0
	var rec func(n *Node)
	rec = func(n *Node) {
		if n.K == Cap {
			g++
			n.G = g
		}
		for _, k := range n.Kids {
			rec(k)
		}
	}
	rec(n)
	return g
}

// Enum returns the enumerated pattern set: all ASTs up to maxSize nodes,
// thinned to at most perSig patterns per structural signature (chosen by hash
// with the given seed), de-duplicated by printed text.
func Enum(maxSize, perSig, seed int, full bool) []Pat {
	cfg := genCfg{look: true, atomic: true, lazy: true, caps: true}
	memo := map[int][]*Node{}
	bySig := map[string][]*Node{}
	for s := 1; s <= maxSize; s++ {
		for _, n := range enumerate(s, memo, cfg) {
			sig := signature(n)
			bySig[sig] = append(bySig[sig], n)
		}
	}
	var sigs []string
	for s := range bySig {
		sigs = append(sigs, s)
	}
	sort.Strings(sigs)
	seen := map[string]bool{}
	var out []Pat
	add := func(n *Node) {
		n = n.Clone()
		ng := numberGroups(n)
		txt := n.Print(false)
		if seen[txt] {
			return
		}
		seen[txt] = true
		out = append(out, Pat{Text: txt, AST: n, NGroups: ng, Source: "enum"})
		// variants with a back-reference or a conditional on group 1
		if ng >= 1 && n.K != Alt {
			b := &Node{K: Cat, Kids: []*Node{n.Clone(), {K: Backref, G: 1}}}
			numberGroups(b)
			if t := b.Print(false); !seen[t] && hashStr(t, seed)%3 == 0 {
				seen[t] = true
				out = append(out, Pat{Text: t, AST: b, NGroups: ng, Source: "enum"})
			}
			c := &Node{K: Cat, Kids: []*Node{{K: Rep, Min: 0, Max: 1, Kids: []*Node{n.Clone()}}, {K: CondRef, G: 1, Kids: []*Node{L('b'), L('c')}}}}
			if !n.Nullable() && n.K != Rep {
				numberGroups(c)
				if t := c.Print(false); !seen[t] && hashStr(t, seed)%5 == 0 {
					seen[t] = true
					out = append(out, Pat{Text: t, AST: c, NGroups: ng, Source: "enum"})
				}
			}
		}
	}
	for _, sig := range sigs {
		ns := bySig[sig]
		sort.Slice(ns, func(i, j int) bool {
			return hashStr(ns[i].Print(false), seed) < hashStr(ns[j].Print(false), seed)
		})
		k := perSig
		if full || k > len(ns) {
			k = len(ns)
		}
		for _, n := range ns[:k] {
			add(n)
		}
	}
	return out
}

// FromText builds a Pat from pattern text, attaching an AST when parsable under options.
func FromText(text string, options int, source string) Pat {
	p := Pat{Text: text, Source: source}
	if ast, ng, err := Parse(text, options); err == nil {
		p.AST = ast
		p.NGroups = ng
	}
	return p
}
