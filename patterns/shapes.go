package patterns

// Shape library (DESIGN.md Appendix C): hand-written patterns, at least two per
// mechanism named in the property anchors.

type Shape struct {
	Mech string
	Pats []string
}

var Shapes = []Shape{
	{"prefix", []string{`(?:ab*){2}`, `(c[ab]){2,}`, `(?:ab){2}c`, `(?:ab*){2,3}`, `(abcd)|(abx)|(abcd)`, `abcd|abx|abcd`, `(?i)(?:abc)*`, `(?i)(abc)?`, `(?i)(?:abc){0,2}`, `(?:abc)*`, `(?:ab)?c`, `abc|abd|ab`, `(?i)abc|abd`, `ab(?:c|d)e`}},
	{"landmark", []string{`\w+(?:-|\.+)\w=`, `\w+(?:-|\.\.+)\w+=`, `[ab]+(?:-|\d+)[ab]=`, `\w+(?:-|[.,]+)\w+=\d`, `\w+(?:\.+|-)\w=`, `\w+[bB]{1,2}[abAB]\z`, `[ab]*[a-c]{1,2}\w*a{1,2}$`, `\w+\s+at\s+\w+`, `\d+-\d+`, `[a-c]+x[a-c]+`}},
	{"bumpalong", []string{`(a*b)\1`, `(\w*b)\1`, `(?<x>a*b)c\k<x>`, `(?>[ab]+?[^a]+)[^a]?\Z`, `(?>a+?b)c`, `(?>(?:a+?b))c`, `a*b`, `.*b`, `.*?b`, `(?s).*a`, `\w*1`}},
	{"findmode-anchor", []string{`\Aab`, `\Gab`, `ab\z`, `a.c$`, `^ab`, `(?m)^ab`, `ab$`, `(?m)ab$`, `\Ga`, `^`, `\z`, `a\Z`}},
	{"findmode-bm", []string{`éab`, `aéb`, `abé`, `ёab`, `aёb`, `éab\d`, `\x{10000}ab`, `aab`, `aba`, `abab`, `éaé`, `ÿab`, `a\x80b`, `(?i)éab`, `(?i)abé`, `abcab`, `éa`, `bé`}},
	{"findmode-prefix", []string{`(?i)aab`, `(?i)abab`, `(?i)aaab`, `(?i)aba!`, `(?i)a-a-b`, `abc.*`, `(?i)abc\d`, `abc|abd|xyz`, `abab`, `aab`, `abcab`, `éa`, `ab|cd`, `abc|abd`, `(?i)ab|cd`, `aa|ab|ba`}},
	{"findmode-set", []string{`[ab]c`, `.b[cd]`, `..ab`, `[^a]b`, `[a-c]x`, `\d[ab]`, `[ab][cd][ab]`, `a[bc]d`, `\w\d`, `(?i)[ab]c`}},
	{"findmode-literalafterloop", []string{`\w+@x`, `[a-c]*:d`, `a*b`, `[ab]*c`, `\d*x`, `[ab]+cd`}},
	{"autoatomic", []string{`a*(?:bc)?a`, `(a*)(bc)?(a)`, `\d*(?:,\d\d)*\d`, `a*?(?:bc)?a`, `[ab]*(?:cd)*b`, `a*(?:bc)*?a`, `(?m)a\n*$`, `(?m)\n+$`, `(?m)b\n?$`, `(?m)\n*$b`, `(?<=abb*)c`, `(?<=ab[b]*)c`, `(?<!abb*)c`, `(?<=(ab)(b*))c`, `(?<=aab*)b`, `(?<=ab*b)c`, `[ab]*([bc]*)d\1$`, `[ab]*([bc]*)\1c`, `a*([ab]*)c\1$`, `[ab]+([bc]*)d\1$`, `[ab]*?([bc]*)d\1$`, `\w*(\d*)-\1$`, `[^a]*([ab]*)c\1$`, `a*b`, `a*a`, `a*[^a]`, `a*[ab]`, `[ab]*c`, `[ab]*b`, `a*$`, `a*\b`, `\w*\b`, `\d+\b`, `a*b*c`, `a*b*a`, `a*?b`, `a*?b*`,
		`(a*b)*`, `(?:a+[b])*`, `(?:a+[ab])*`, `x(?:a*|b)c`, `a*(?=b)`, `a*(?<=b)c`, `(?i)a*B`, `a+b+`, `\w+\d`, `\d+\w`, `[ab]+[bc]`, `a?b`, `a?a`, `(?:ab)*a`, `(?:ab)*c`}},
	{"endbacktrack", []string{`(?:a[ab]?){2}`, `(ab|abc){2}`, `(?:ab*){2}`, `(?>(?:a[ab]?){2})c`, `(?=(?:a[ab]*){2})\w+`, `(?:a[ab]?){2,}?`, `(?!(?:a[ab]?){2})a+`, `(\w+\d*){2}`, `(?:a[ab]?){3}`, `ab*`, `a(?:b|c*)`, `(?:ab*)*`, `(ab*?)+?`, `(?=ab*)a`, `(?>(?>a*))`, `(?(a)b*|c*)`, `(?:a|b*)`, `(?>a|ab)c`, `(?>ab|a)b`}},
	{"alternation", []string{`abc|abd`, `ab|ac|ad|b`, `a|b|cd|e`, `\w1|\w2|\d3`, `(?>hi|there|hello)x`, `(?>a||b)`, `ab|cd||ef`, `ab|(?!)|cd`, `[ab]x|[ab]y`,
		`a|ab`, `ab|a`, `(a|ab)(c|bcd)(d*)`, `(?>abc|abd|x)e`, `(?:a|b)c|(?:a|b)d`, `ax|ay|bz`}},
	{"coalesce", []string{`a*a`, `a+a*`, `aa*?`, `a*?a*?`, `[ab][ab]*`, `a{2,3}a{1,2}`, `(?>a*)a+`, `a+ab`, `.*.`, `aa+`, `a*a*`, `a?a?`, `a{2}a{2}`, `[ab]*[ab]`, `a+?a`}},
	{"opcodes", []string{`(a)?(?(1)[ab]\w|c)`, `(?(?=a)a\w|\wd)`, `(a)?b(?<=(?(1)a\w|\wb))`, `(?<=(?(?=\d)a\d|b))c`, `(a)?\w\w(?<=(?(1)a\w|bb))`, `(?:ab){2,3}`, `(?:ab){2,}?`, `(?:a|ab){1,2}?c`, `(a)?(?(1)b|c)`, `(?(?=a)ab|cd)`, `(a|b)\1`, `(?<n>a)\k<n>`, `(a)|\1b`, `(?<=(a)b)c`,
		`(a+)\1`, `(?:a(b))*`, `((a)|(b))*c`, `(a)(?!b)`, `(?<!a)b`, `(?<=a)b`, `(?<=ab)c`, `(?<!ab)c`, `(?=(a))ab`, `(?!a)\w`, `(a)*`, `(a|b)+`, `(?:(a)|b)*`,
		`(?:ab)+`, `(?:ab)+?c`, `(?:a|b)*?c`, `(ab){2}`, `(?:ab){0,2}c`, `(a)(b)?\2`, `(a)?(?(1)a|b)c`}},
	{"stackdeep", []string{`a*b*c*d*`, `a+b+c+d+`, `x(?<=a*b*c*x)`, `[ab]*[bc]*[cd]*`, `a*?b*?c*?d`, `(?<=a+b+)c`, `\w*\d*a*b*`}},
	{"stacklimit", []string{`(?:a|b|c|d)*e`, `((a)|(b))*c`, `(?:a?){3}a{3}`, `(a*)*b`, `(a|b)*c`, `(?:a*a*)*b`}},
	{"zerowidth", []string{`a*`, `\b`, `(?=a)`, `\G`, `\Ga*`, `(?<=a)`, `^|$`, `a*?`, `(?:)`, `$`, `a?`, `(?m)^`, `(?m)$`, `\B`, `b*|a`, `(a)?`, `\Ga`, `(?<=\Ga)`, `a|`, `(?!a)`, `\b|a`}},
	{"anchors", []string{`^a`, `a$`, `(?m)^a`, `(?m)a$`, `\Aa`, `a\Z`, `a\z`, `\ba`, `a\b`, `\Ba`, `a\B`, `\Ga`, `^$`, `(?m)^$`, `a$\n`, `a\Z\n`, `(?s)a.$`}},
	{"classes", []string{`[A-C]x`, `[\p{Lu}]y`, `x[B]`, `[\p{Ll}]+`, `[^A-C]x`, `[ab]`, `[^ab]`, `\w`, `\W`, `\d`, `\D`, `\s`, `\S`, `[a-c\d]`, `[^\w]`, `\p{Lu}`, `\P{Lu}`, `[\p{Ll}x]`, `.`, `(?s).`, `[\n]`, `[^\n]`, `\p{Greek}`}},
	{"case", []string{`(?i)a`, `(?i)[a-c]`, `(?i)[^a]`, `(?i)abc`, `(?i)(a)\1`, `(?i)k`, `(?i)é`, `(?i)σ`, `(?i)[α-γ]`, `(?i)ж`, `(?i)a*B`, `(?i)ab|cd`, `(?i)\x41`, `(?i)[A-Z]b`,
		`(?i)[\s\S-[a]]`, `(?i)[\w\W-[k]]`, `(?i)[^x-[a]]`, `(?i)[a-z-[b]]`, `(?i)[\d\D-[A-C]]`, `(?i)[\w-[a-c]]x`, `(?i)[^a-[b]]`, `(?i)[\x00-\x{10FFFF}-[é]]`, `(?i)[a-c-[b-[B]]]`}},
	{"groups", []string{`(a)(?<x>b)(c)`, `(?<x>a)|(?<x>b)`, `(?<x>a)(b)`, `(a)(?<y>b)(?<x>c)`, `(?n)(a)(?<x>b)`, `(?<x>a)\k<x>`, `((a)(b))`, `(a(b(c)))`}},
	{"lookaround-lead", []string{`(?:(?=[ab])..)?\dx`, `(?:(?=a)a)?b*`, `(?:(?=[ab])\w)*c`, `(?:(?=[-+])[-+])?\d*`, `(?:(?=ab)..)??\dx`, `((?<=ab))\w*`, `(?>(?<=a))\w*`, `((?<=[ab]))\w*`, `(?<n>(?<=a))b*`, `((?=ab))\w*`, `((?<!a))\w+`, `(?>(?=a))\w+`}},
	{"balancing", []string{`(?<o>a)+(?<-o>b)+`, `(?:(?<o>a)|(?<-o>b))+`, `(?<o>a)+(?<-o>b)?`, `(?:(?<o>a)|(?<x-o>b))+`, `(?<o>a)(?<-o>b)(?<o>c)`}},
	{"options", []string{`(?n:(?i)a)(b)`, `(?-n:(?i)(a))(b)`, `(?x:(?i) a )(b)`, `(?n:(?m)^a)(b)(c)`, `(?i:(?n)(a)b)(c)`, `((?n)(a)(?-n)(b))(c)`, `(?n:a(?-n:(b))c)(a)`, `(?s:(?i)a.)(b)`, `(?x: a (?-x: b)c )(d)`, `(?n)(a)(?-n)(b)`, `(?i)a(?-i)b`, `a(?i)b`, `(?i:a)b`, `(?s).(?-s).`, `(?m)^a(?-m)$`, `(?i)(?:a(?-i)b)c`, `(?x) a b # c`, `(?x)a\ b`, `(?n)(a)(b)`, `(?i:a|B)c`, `a(?i:b)c`}},
}

// ShapePats returns the shape library as patterns (with ASTs where parsable under options 0).
func ShapePats() []Pat {
	var out []Pat
	seen := map[string]bool{}
	for _, s := range Shapes {
		for _, p := range s.Pats {
			if seen[p] {
				continue
			}
			seen[p] = true
			out = append(out, FromText(p, 0, "shape:"+s.Mech))
		}
	}
	return out
}

// ShapesOf returns the patterns of the given mechanisms.
func ShapesOf(mechs ...string) []Pat {
	var out []Pat
	seen := map[string]bool{}
	for _, s := range Shapes {
		for _, m := range mechs {
			if s.Mech != m {
				continue
			}
			for _, p := range s.Pats {
				if !seen[p] {
					seen[p] = true
					out = append(out, FromText(p, 0, "shape:"+s.Mech))
				}
			}
		}
	}
	return out
}

// LoopSucc is the systematic product "single-character loop x successor x tail"
// that the auto-atomic / coalescing / bump-along / prefix analyses decide on
// (every One/Notone/Set loop kind against One/Notone/Set/Multi/anchor/boundary/
// nullable-loop/lookaround successors, overlapping and disjoint). keep = 1/keep of
// the product is returned (chosen by hash with seed); keep <= 1 returns all.
func LoopSucc(keep, seed int) []Pat {
	loops := []string{`a*`, `a+`, `a*?`, `a+?`, `[^a]*`, `[^a]+`, `[^a]*?`, `[ab]*`, `[ab]+?`, `\w*`, `.*`, `.*?`, `a{1,2}`, `[^a]{0,2}`, `\d+`, `(?:ab)*`, `\W+`, `-+`, `\D*`}
	succs := []string{`a`, `b`, `[^a]`, `[^b]`, `[ab]`, `[bc]`, `ab`, `ba`, `$`, `\b`, `\B`, `a?`, `b?`, `a*`, `b*`, `[^a]?`, `[ab]?`, `a?b`, `b?a`, `(?:a|b)`, `\n?`, `(?=a)`, `(?!a)`, `a{0,2}b`, `\d`, `\w`, `(a)`, `(?:a|[^a])`, `a|b`}
	tails := []string{``, `b`, `c`, `$`, `\w`}
	var out []Pat
	for _, l := range loops {
		for _, s := range succs {
			for _, t := range tails {
				p := l + s + t
				if s == `a|b` {
					p = l + `(?:` + s + `)` + t
				}
				// thinning keeps every (loop, successor) pair with the empty tail and one further tail
				if keep > 1 && t != `` && hashStr(l+s, seed)%uint64(len(tails)-1) != uint64(indexOf(tails, t)-1) {
					continue
				}
				out = append(out, FromText(p, 0, "shape:loopsucc"))
			}
		}
	}
	return out
}

// SuccLoop is the mirror image of LoopSucc, "head x predecessor x single-character loop": what a
// right-to-left program sees as loop-then-successor (the reducer walks the reversed concatenation), and for
// left-to-right programs the "item / string followed by a loop of its last character" coalescing rules.
func SuccLoop(keep, seed int) []Pat {
	loops := []string{`a*`, `a+`, `a*?`, `a+?`, `[^a]*`, `[^a]+`, `[^a]*?`, `[ab]*`, `[ab]+?`, `\w*`, `.*`, `.*?`, `a{1,2}`, `[^a]{0,2}`, `\d+`, `(?:ab)*`}
	preds := []string{`a`, `b`, `[^a]`, `[^b]`, `[ab]`, `[bc]`, `ab`, `ba`, `aa`, `ca`, `^`, `\b`, `a?`, `b?`, `a*`, `b*`, `[^a]?`, `[ab]?`, `a?b`, `b?a`, `(?:a|b)`, `\n?`, `(?<=a)`, `(?<!a)`, `ba{0,2}`, `\d`, `\w`, `(a)`, `(?:a|[^a])`}
	heads := []string{``, `b`, `c`, `^`, `\w`}
	var out []Pat
	for _, l := range loops {
		for _, s := range preds {
			for _, h := range heads {
				p := h + s + l
				// thinning keeps every (predecessor, loop) pair with the empty head and, for keep <= 4, one further head
				if keep > 1 && h != `` && (keep > 4 || hashStr(s+l, seed)%uint64(len(heads)-1) != uint64(indexOf(heads, h)-1)) {
					continue
				}
				out = append(out, FromText(p, 0, "shape:succloop"))
			}
		}
	}
	return out
}

// AltPrefix is the systematic product for alternation prefix factoring: two or
// three branches that start with the same / a similar literal, set or loop.
func AltPrefix(keep, seed int) []Pat {
	heads := []string{`a`, `ab`, `[ab]`, `[^a]`, `\d`, `a{2}`, `[ab]{2}`, `\d{2}`, `[^,]{2}`, `a*`, `[ab]+`}
	vars := []string{``, `{2,3}`, `{2,}`, `+`, `?`}
	tails := [][2]string{{`b`, `c`}, {`-`, `x`}, {``, `b`}, {`b`, ``}, {`;`, `!`}}
	var out []Pat
	for _, h := range heads {
		for _, v := range vars {
			for _, t := range tails {
				h2 := h
				if v != `` {
					// second branch: same head with a different repeat
					base := h
					if i := len(base) - 1; base[i] == '}' || base[i] == '*' || base[i] == '+' {
						for i >= 0 && base[i] != '{' && base[i] != '*' && base[i] != '+' {
							i--
						}
						base = base[:i]
					}
					h2 = base + v
				}
				for _, wrap := range []string{`%s|%s`, `^(?:%s|%s)$`, `(?>%s|%s)z`} {
					p := sprintf2(wrap, h+t[0], h2+t[1])
					if keep > 1 && hashStr(p, seed)%uint64(keep) != 0 {
						continue
					}
					out = append(out, FromText(p, 0, "shape:altprefix"))
				}
			}
		}
	}
	return out
}

func indexOf(xs []string, x string) int {
	for i, y := range xs {
		if y == x {
			return i
		}
	}
	return -1
}

func sprintf2(f, a, b string) string {
	out := ""
	k := 0
	for i := 0; i < len(f); i++ {
		if f[i] == '%' && i+1 < len(f) && f[i+1] == 's' {
			if k == 0 {
				out += a
			} else {
				out += b
			}
			k++
			i++
			continue
		}
		out += string(f[i])
	}
	return out
}
