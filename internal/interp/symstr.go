package interp

// Strings with symbolic bytes: concrete length, each byte a uint8 or a sym(uint8).

import (
	"fmt"
	"go/token"
	"go/types"
	"unicode/utf8"
)

type symstr struct{ b []value }

func isSymstr(v value) bool { _, ok := v.(symstr); return ok }

func strBytes(v value) []value {
	switch s := v.(type) {
	case string:
		return stringElems(s)
	case symstr:
		return s.b
	}
	panic(engineBug(fmt.Sprintf("strBytes: %T", v)))
}

// mkStr builds a string value from bytes, collapsing to a Go string if concrete.
func mkStr(b []value) value {
	for _, e := range b {
		if _, ok := e.(sym); ok {
			return symstr{b}
		}
	}
	bs := make([]byte, len(b))
	for i, e := range b {
		bs[i] = e.(byte)
	}
	return string(bs)
}

func byteTerm(v value) *Term {
	t, _ := termOf(v)
	return t
}

func symstrEq(a, b []value) *Term {
	if len(a) != len(b) {
		return TFalse
	}
	r := TTrue
	for i := range a {
		r = TAnd(r, TEq(byteTerm(a[i]), byteTerm(b[i])))
	}
	return r
}

// symstrLess returns the term for a < b (orEq: a <= b), lexicographic on bytes.
func symstrLess(a, b []value, orEq bool) *Term {
	n := len(a)
	if len(b) < n {
		n = len(b)
	}
	// tail: all common bytes equal
	var tail *Term
	if len(a) < len(b) || (orEq && len(a) == len(b)) {
		tail = TTrue
	} else {
		tail = TFalse
	}
	for i := n - 1; i >= 0; i-- {
		x, y := byteTerm(a[i]), byteTerm(b[i])
		tail = TIte(TEq(x, y), tail, TBin(OpULt, x, y))
	}
	return tail
}

func symstrBinop(op token.Token, x, y value) value {
	a, b := strBytes(x), strBytes(y)
	switch op {
	case token.ADD:
		r := make([]value, 0, len(a)+len(b))
		r = append(r, a...)
		r = append(r, b...)
		return mkStr(r)
	case token.EQL:
		return mkVal(types.Bool, symstrEq(a, b))
	case token.NEQ:
		return mkVal(types.Bool, TNot(symstrEq(a, b)))
	case token.LSS:
		return mkVal(types.Bool, symstrLess(a, b, false))
	case token.LEQ:
		return mkVal(types.Bool, symstrLess(a, b, true))
	case token.GTR:
		return mkVal(types.Bool, symstrLess(b, a, false))
	case token.GEQ:
		return mkVal(types.Bool, symstrLess(b, a, true))
	}
	panic(engineBug("symstrBinop " + op.String()))
}

func symstrConv(dst types.Type, s symstr) value {
	switch d := dst.(type) {
	case *types.Basic:
		if d.Kind() == types.String {
			return s
		}
	case *types.Slice:
		switch d.Elem().Underlying().(*types.Basic).Kind() {
		case types.Byte:
			return append([]value(nil), s.b...)
		case types.Rune:
			var res []value
			for i := 0; i < len(s.b); {
				r, n := decodeSym(s.b[i:])
				res = append(res, r)
				i += n
			}
			return res
		}
	}
	panic(engineBug(fmt.Sprintf("symstrConv to %s", dst)))
}

func u8(v value) *Term { return byteTerm(v) }

func between(t *Term, lo, hi uint64) *Term {
	c := TBin(OpULe, t, TConst(t.W, hi))
	if lo > 0 {
		c = TAnd(TBin(OpULe, TConst(t.W, lo), t), c)
	}
	return c
}

// decodeSym is utf8.DecodeRune over possibly symbolic bytes: the byte classes are
// decided (forking), the rune is an expression over the bytes, the size is concrete.
func decodeSym(p []value) (value, int) {
	bad := func() (value, int) { return rune(utf8.RuneError), 1 }
	if len(p) == 0 {
		return rune(utf8.RuneError), 0
	}
	allc := true
	for i := 0; i < len(p) && i < 4; i++ {
		if isSym(p[i]) {
			allc = false
		}
	}
	if allc {
		var buf [4]byte
		n := 0
		for i := 0; i < len(p) && i < 4; i++ {
			buf[i] = p[i].(byte)
			n++
		}
		r, sz := utf8.DecodeRune(buf[:n])
		return r, sz
	}
	X.Intrinsics["utf8-decode-symbolic"]++
	p0 := u8(p[0])
	site := "utf8"
	if X.decide(TBin(OpULt, p0, TConst(8, 0x80)), site) {
		return mkVal(types.Int32, TExt(p0, 32, false)), 1
	}
	var sz int
	var lo, hi uint64 = 0x80, 0xBF
	switch {
	case X.decide(between(p0, 0xC2, 0xDF), site):
		sz = 2
	case X.decide(TEq(p0, TConst(8, 0xE0)), site):
		sz, lo = 3, 0xA0
	case X.decide(TEq(p0, TConst(8, 0xED)), site):
		sz, hi = 3, 0x9F
	case X.decide(between(p0, 0xE1, 0xEF), site):
		sz = 3
	case X.decide(TEq(p0, TConst(8, 0xF0)), site):
		sz, lo = 4, 0x90
	case X.decide(between(p0, 0xF1, 0xF3), site):
		sz = 4
	case X.decide(TEq(p0, TConst(8, 0xF4)), site):
		sz, hi = 4, 0x8F
	default:
		return bad()
	}
	if len(p) < sz {
		return bad()
	}
	b1 := u8(p[1])
	if !X.decide(between(b1, lo, hi), site) {
		return bad()
	}
	c32 := func(t *Term, m uint64, sh uint64) *Term {
		x := TBin(OpAnd, TExt(t, 32, false), TConst(32, m))
		if sh > 0 {
			x = TBin(OpShl, x, TConst(32, sh))
		}
		return x
	}
	if sz == 2 {
		return mkVal(types.Int32, TBin(OpOr, c32(p0, 0x1F, 6), c32(b1, 0x3F, 0))), 2
	}
	b2 := u8(p[2])
	if !X.decide(between(b2, 0x80, 0xBF), site) {
		return bad()
	}
	if sz == 3 {
		return mkVal(types.Int32, TBin(OpOr, TBin(OpOr, c32(p0, 0x0F, 12), c32(b1, 0x3F, 6)), c32(b2, 0x3F, 0))), 3
	}
	b3 := u8(p[3])
	if !X.decide(between(b3, 0x80, 0xBF), site) {
		return bad()
	}
	return mkVal(types.Int32, TBin(OpOr, TBin(OpOr, c32(p0, 0x07, 18), c32(b1, 0x3F, 12)), TBin(OpOr, c32(b2, 0x3F, 6), c32(b3, 0x3F, 0)))), 4
}

// encodeSymRune is string(rune) / utf8.AppendRune for a symbolic rune.
func encodeSymRune(r sym) value {
	return mkStr(encodeSymRuneBytes(r))
}

func encodeSymRuneBytes(r sym) []value {
	X.Intrinsics["utf8-encode-symbolic"]++
	t := TExt(r.t, 32, kindSigned(r.k))
	if r.t.W > 32 {
		// string(int64) etc.: out of range values become U+FFFD
		if !X.decide(TBin(OpULe, r.t, TConst(r.t.W, 0x10FFFF)), "utf8enc") {
			return stringElems("�")
		}
	}
	site := "utf8enc"
	b := func(x *Term) value { return mkVal(types.Uint8, TExt(x, 8, false)) }
	sh := func(n uint64) *Term { return TBin(OpLShr, t, TConst(32, n)) }
	cont := func(x *Term) *Term {
		return TBin(OpOr, TBin(OpAnd, x, TConst(32, 0x3F)), TConst(32, 0x80))
	}
	if X.decide(TBin(OpULt, t, TConst(32, 0x80)), site) {
		return []value{b(t)}
	}
	if X.decide(TBin(OpULt, t, TConst(32, 0x800)), site) {
		return []value{b(TBin(OpOr, sh(6), TConst(32, 0xC0))), b(cont(t))}
	}
	if X.decide(TOr(TBin(OpULt, TConst(32, 0x10FFFF), t), between(t, 0xD800, 0xDFFF)), site) {
		return stringElems("�")
	}
	if X.decide(TBin(OpULt, t, TConst(32, 0x10000)), site) {
		return []value{b(TBin(OpOr, sh(12), TConst(32, 0xE0))), b(cont(sh(6))), b(cont(t))}
	}
	return []value{b(TBin(OpOr, sh(18), TConst(32, 0xF0))), b(cont(sh(12))), b(cont(sh(6))), b(cont(t))}
}

// runesToString implements string([]rune) with possibly symbolic runes.
func runesToString(x []value) value {
	var out []value
	for _, e := range x {
		switch r := e.(type) {
		case sym:
			out = append(out, encodeSymRuneBytes(r)...)
		default:
			out = append(out, stringElems(string(e.(rune)))...)
		}
	}
	return mkStr(out)
}

type symstrIter struct {
	b []value
	i int
}

func (it *symstrIter) next() tuple {
	okv := make(tuple, 3)
	if it.i >= len(it.b) {
		okv[0] = false
		return okv
	}
	r, n := decodeSym(it.b[it.i:])
	okv[0] = true
	okv[1] = it.i
	okv[2] = r
	it.i += n
	return okv
}
