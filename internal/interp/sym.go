package interp

// Symbolic scalar values and the symbolic versions of binop/unop/conv.

import (
	"fmt"
	"go/token"
	"go/types"
)

// sym is a symbolic value of a Go basic integer type or bool.
type sym struct {
	k types.BasicKind // types.Bool or an integer kind
	t *Term
}

// engineBug is the panic type for "the engine cannot handle this"; it is never
// attributed to the target program.
type engineBug string

func (e engineBug) String() string { return "gosym: " + string(e) }

func kindWidth(k types.BasicKind) uint8 {
	switch k {
	case types.Bool, types.UntypedBool:
		return 0
	case types.Int8, types.Uint8:
		return 8
	case types.Int16, types.Uint16:
		return 16
	case types.Int32, types.Uint32, types.UntypedRune:
		return 32
	case types.Int, types.Uint, types.Int64, types.Uint64, types.Uintptr, types.UntypedInt:
		return 64
	}
	panic(engineBug(fmt.Sprintf("kindWidth: %v", k)))
}

func kindSigned(k types.BasicKind) bool {
	switch k {
	case types.Int, types.Int8, types.Int16, types.Int32, types.Int64, types.UntypedInt, types.UntypedRune:
		return true
	}
	return false
}

func isSym(v value) bool { _, ok := v.(sym); return ok }

// kindOf returns the basic kind of a concrete scalar.
func kindOf(v value) (types.BasicKind, uint64, bool) {
	switch x := v.(type) {
	case bool:
		return types.Bool, b2u(x), true
	case int:
		return types.Int, uint64(x), true
	case int8:
		return types.Int8, uint64(x), true
	case int16:
		return types.Int16, uint64(x), true
	case int32:
		return types.Int32, uint64(x), true
	case int64:
		return types.Int64, uint64(x), true
	case uint:
		return types.Uint, uint64(x), true
	case uint8:
		return types.Uint8, uint64(x), true
	case uint16:
		return types.Uint16, uint64(x), true
	case uint32:
		return types.Uint32, uint64(x), true
	case uint64:
		return types.Uint64, x, true
	case uintptr:
		return types.Uintptr, uint64(x), true
	}
	return 0, 0, false
}

// termOf returns the term and kind of a (concrete or symbolic) scalar.
func termOf(v value) (*Term, types.BasicKind) {
	if s, ok := v.(sym); ok {
		return s.t, s.k
	}
	k, u, ok := kindOf(v)
	if !ok {
		panic(engineBug(fmt.Sprintf("termOf: %T", v)))
	}
	return TConst(kindWidth(k), u), k
}

// mkVal wraps a term as a value of kind k, concretising constants.
func mkVal(k types.BasicKind, t *Term) value {
	if t.IsConst() {
		return constOfKind(k, t.Val)
	}
	return sym{k, t}
}

func constOfKind(k types.BasicKind, u uint64) value {
	switch k {
	case types.Bool, types.UntypedBool:
		return u != 0
	case types.Int, types.UntypedInt:
		return int(u)
	case types.Int8:
		return int8(u)
	case types.Int16:
		return int16(u)
	case types.Int32, types.UntypedRune:
		return int32(u)
	case types.Int64:
		return int64(u)
	case types.Uint:
		return uint(u)
	case types.Uint8:
		return uint8(u)
	case types.Uint16:
		return uint16(u)
	case types.Uint32:
		return uint32(u)
	case types.Uint64:
		return u
	case types.Uintptr:
		return uintptr(u)
	}
	panic(engineBug(fmt.Sprintf("constOfKind: %v", k)))
}

func symBinop(op token.Token, x, y value) value {
	// strings with symbolic content are handled elsewhere
	tx, kx := termOf(x)
	ty, ky := termOf(y)
	signed := kindSigned(kx)
	switch op {
	case token.SHL, token.SHR:
		// shift count may have any integer type; Go: count >= width gives 0 / sign fill
		w := tx.W
		if kindSigned(ky) {
			// negative shift count panics
			if X.decide(TBin(OpSLt, ty, TConst(ty.W, 0)), "shift<0") {
				panic("negative shift amount")
			}
		}
		var cnt *Term
		big := TFalse
		if ty.W > w {
			big = TNot(TBin(OpULt, ty, TConst(ty.W, uint64(w))))
			cnt = TExt(ty, w, false)
		} else {
			cnt = TExt(ty, w, false)
		}
		// SMT bvshl/bvlshr already give 0 for counts >= width, bvashr sign-fills; only
		// the truncated high bits of a wider count need care.
		var r *Term
		if op == token.SHL {
			r = TBin(OpShl, tx, cnt)
			r = TIte(big, TConst(w, 0), r)
		} else if signed {
			r = TBin(OpAShr, tx, cnt)
			r = TIte(big, TBin(OpAShr, tx, TConst(w, uint64(w-1))), r)
		} else {
			r = TBin(OpLShr, tx, cnt)
			r = TIte(big, TConst(w, 0), r)
		}
		return mkVal(kx, r)
	}
	if tx.W != ty.W {
		panic(engineBug(fmt.Sprintf("symBinop %s: kinds %v %v", op, kx, ky)))
	}
	switch op {
	case token.ADD:
		return mkVal(kx, TBin(OpAdd, tx, ty))
	case token.SUB:
		return mkVal(kx, TBin(OpSub, tx, ty))
	case token.MUL:
		return mkVal(kx, TBin(OpMul, tx, ty))
	case token.QUO, token.REM:
		if X.decide(TEq(ty, TConst(ty.W, 0)), "div0") {
			panic(runtimeDivide{})
		}
		var o Op
		switch {
		case op == token.QUO && signed:
			o = OpSDiv
		case op == token.QUO:
			o = OpUDiv
		case signed:
			o = OpSRem
		default:
			o = OpURem
		}
		return mkVal(kx, TBin(o, tx, ty))
	case token.AND:
		if kx == types.Bool {
			return mkVal(kx, TAnd(tx, ty))
		}
		return mkVal(kx, TBin(OpAnd, tx, ty))
	case token.OR:
		if kx == types.Bool {
			return mkVal(kx, TOr(tx, ty))
		}
		return mkVal(kx, TBin(OpOr, tx, ty))
	case token.XOR:
		return mkVal(kx, TBin(OpXor, tx, ty))
	case token.AND_NOT:
		return mkVal(kx, TBin(OpAnd, tx, TUn(OpNot, ty)))
	case token.EQL:
		return mkVal(types.Bool, TEq(tx, ty))
	case token.NEQ:
		return mkVal(types.Bool, TNot(TEq(tx, ty)))
	case token.LSS:
		return mkVal(types.Bool, TBin(cmpOp(OpULt, signed), tx, ty))
	case token.LEQ:
		return mkVal(types.Bool, TBin(cmpOp(OpULe, signed), tx, ty))
	case token.GTR:
		return mkVal(types.Bool, TBin(cmpOp(OpULt, signed), ty, tx))
	case token.GEQ:
		return mkVal(types.Bool, TBin(cmpOp(OpULe, signed), ty, tx))
	}
	panic(engineBug(fmt.Sprintf("symBinop: op %s", op)))
}

type runtimeDivide struct{}

func (runtimeDivide) Error() string { return "runtime error: integer divide by zero" }
func (runtimeDivide) RuntimeError() {}

func cmpOp(o Op, signed bool) Op {
	if !signed {
		return o
	}
	if o == OpULt {
		return OpSLt
	}
	return OpSLe
}

func symUnop(op token.Token, x sym) value {
	switch op {
	case token.SUB:
		return mkVal(x.k, TUn(OpNeg, x.t))
	case token.NOT:
		return mkVal(x.k, TNot(x.t))
	case token.XOR:
		return mkVal(x.k, TUn(OpNot, x.t))
	}
	panic(engineBug(fmt.Sprintf("symUnop: op %s", op)))
}

// symConv converts symbolic scalar x to basic type dst.
func symConv(dst *types.Basic, x sym) value {
	if dst.Info()&types.IsInteger == 0 {
		if dst.Kind() == types.String {
			// string(rune): UTF-8 encode a symbolic rune
			return encodeSymRune(x)
		}
		panic(engineBug(fmt.Sprintf("symConv to %s", dst)))
	}
	k := dst.Kind()
	return mkVal(k, TExt(x.t, kindWidth(k), kindSigned(x.k)))
}

// concreteInt forces v to a concrete int64 (forking on feasible values if symbolic).
func concreteInt(v value, what string) int64 {
	if s, ok := v.(sym); ok {
		u := X.concretise(s.t, what)
		return asInt64(constOfKind(s.k, u))
	}
	return asInt64(v)
}
