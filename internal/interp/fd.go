package interp

// Finite-domain pre-filter for decisions (part of gosym, see /verif/DESIGN.md section 0.1).
//
// Most decisions of the explored code test ONE symbolic variable against constants (character comparisons,
// class membership, table look-ups split by value). For a variable whose domain is small enough to list
// (bytes, runes of the clipped rune domains, small integer ranges) the engine keeps, per path, the set F(v) of
// candidate values that satisfy every single-variable literal already on the path. F(v) is a superset of the
// values v can really take on the path (literals that mention other variables are ignored), so
//   cond true  for every value in F(v)  =>  cond is implied by the path condition,
//   cond false for every value in F(v)  =>  its negation is implied,
// and such a decision needs neither a prefix entry nor a solver query. Anything else is decided by the solver
// exactly as before. The truth table of a condition over the candidate list is computed once per term with the
// same evaluator that validates solver models (term.go Eval). GOSYM_CHECKFD=1 re-asks the solver for every
// decision the filter answers and stops on a disagreement (used for validating the filter, not in checks).

import (
	"fmt"
	"os"
)

const fdMaxCand = 8192

type fdDomain struct {
	vals []uint64
	idx  map[uint64]int
}

var fdDomains = map[*Term]*fdDomain{}
var fdTruth = map[*Term][]uint64{}
var fdOff = os.Getenv("GOSYM_NOFD") != ""
var fdCheck = os.Getenv("GOSYM_CHECKFD") != ""

// Sampling: in every run one in fdSampleDecide "implied" verdicts and one in fdSampleSolve path-condition
// verdicts of this procedure is put to the SMT solver as well (a disagreement is an engine bug and makes the
// unit BROKEN); GOSYM_CHECKFD=1 checks every verdict.
const fdSampleDecide = 5000
const fdSampleSolve = 100

var fdNDecide, fdNSolve int64

func fdConfirmDecide() bool {
	fdNDecide++
	return fdCheck || fdNDecide%fdSampleDecide == 0
}

func fdConfirm() bool {
	fdNSolve++
	return fdCheck || fdNSolve%fdSampleSolve == 0
}

func fdReset() {
	fdDomains = map[*Term]*fdDomain{}
	fdTruth = map[*Term][]uint64{}
}

// fdRegister declares the candidate values of v: every value of cands that satisfies dom (nil = all).
func fdRegister(v *Term, cands []uint64, dom *Term) {
	if fdOff || len(cands) == 0 || len(cands) > fdMaxCand {
		return
	}
	d := &fdDomain{idx: map[uint64]int{}}
	m := Model{}
	for _, c := range cands {
		c &= mask(v.W)
		if _, dup := d.idx[c]; dup {
			continue
		}
		if dom != nil && dom != TTrue {
			m[v] = c
			if Eval(dom, m) == 0 {
				continue
			}
		}
		d.idx[c] = len(d.vals)
		d.vals = append(d.vals, c)
	}
	if len(d.vals) == 0 {
		return
	}
	fdDomains[v] = d
}

const (
	fdUnknown uint8 = iota
	fdNoVar
	fdOneVar
	fdMany
)

// fdVar returns the single listed variable t depends on, or nil.
func fdVar(t *Term) *Term {
	fdScan(t)
	if t.fdState == fdOneVar {
		return t.fdv
	}
	return nil
}

func fdScan(t *Term) {
	if t == nil || t.fdState != fdUnknown {
		return
	}
	switch t.Op {
	case OpConst:
		t.fdState = fdNoVar
		return
	case OpVar:
		if fdDomains[t] != nil {
			t.fdState, t.fdv = fdOneVar, t
		} else {
			t.fdState = fdMany // a variable without a listed domain: never filtered
		}
		return
	}
	st, v := fdNoVar, (*Term)(nil)
	merge := func(k *Term) {
		if k == nil || st == fdMany {
			return
		}
		fdScan(k)
		switch k.fdState {
		case fdMany:
			st = fdMany
		case fdOneVar:
			if st == fdNoVar {
				st, v = fdOneVar, k.fdv
			} else if v != k.fdv {
				st = fdMany
			}
		}
	}
	merge(t.A)
	merge(t.B)
	merge(t.C)
	for _, a := range t.Args {
		merge(a)
	}
	t.fdState, t.fdv = st, v
	if st != fdOneVar {
		t.fdv = nil
	}
}

func fdWords(n int) int { return (n + 63) / 64 }

// fdTruthOf: bit i set iff cond holds for v = vals[i].
func fdTruthOf(cond, v *Term) []uint64 {
	if tr, ok := fdTruth[cond]; ok {
		return tr
	}
	d := fdDomains[v]
	tr := make([]uint64, fdWords(len(d.vals)))
	m := Model{}
	for i, c := range d.vals {
		m[v] = c
		if Eval(cond, m) != 0 {
			tr[i/64] |= 1 << (uint(i) % 64)
		}
	}
	fdTruth[cond] = tr
	return tr
}

// fdFeas returns the current candidate set of v on this path.
func (x *Explorer) fdFeas(v *Term) []uint64 {
	if f, ok := x.feas[v]; ok {
		return f
	}
	n := len(fdDomains[v].vals)
	f := make([]uint64, fdWords(n))
	for i := range f {
		f[i] = ^uint64(0)
	}
	if r := uint(n) % 64; r != 0 {
		f[len(f)-1] = (uint64(1) << r) - 1
	}
	x.feas[v] = f
	return f
}

// fdDecide: 1 = implied true, 0 = implied false, -1 = open (or not a single-variable condition).
func (x *Explorer) fdDecide(cond *Term) (res int, v *Term, truth []uint64) {
	if fdOff {
		return -1, nil, nil
	}
	v = fdVar(cond)
	if v == nil {
		return -1, nil, nil
	}
	truth = fdTruthOf(cond, v)
	f := x.fdFeas(v)
	anyT, anyF := false, false
	for i := range f {
		if f[i]&truth[i] != 0 {
			anyT = true
		}
		if f[i]&^truth[i] != 0 {
			anyF = true
		}
		if anyT && anyF {
			return -1, v, truth
		}
	}
	switch {
	case anyT:
		res = 1
	case anyF:
		res = 0
	default:
		// no candidate left: the single-variable literals on the path contradict each other although the
		// solver accepted the prefix, so the candidate list does not cover the variable's domain
		panic(engineBug(fmt.Sprintf("finite-domain filter: empty candidate set for %s at %s", v.Name, cond)))
	}
	if x.S != nil && fdConfirmDecide() {
		x.FDConfirmed++
		lit := cond
		if res == 1 {
			lit = TNot(cond)
		}
		r, _ := x.S.Check(append(x.literals()[:x.idx:x.idx], lit), x.newGlob, false)
		x.newGlob = nil
		if r == "sat" {
			// (an "unknown" answer confirms nothing and refutes nothing)
			panic(engineBug(fmt.Sprintf("finite-domain filter disagrees with the solver (%s) on %s = %d", r, cond, res)))
		}
	}
	return res, v, truth
}

// fdNarrow keeps the candidates of v on which cond has the value taken.
func (x *Explorer) fdNarrow(v *Term, truth []uint64, taken bool) {
	f := x.fdFeas(v)
	nf := make([]uint64, len(f))
	for i := range f {
		if taken {
			nf[i] = f[i] & truth[i]
		} else {
			nf[i] = f[i] &^ truth[i]
		}
	}
	x.feas[v] = nf
}

// fdSolve decides a conjunction of literals without the solver when every literal is a condition over one listed
// variable: such a conjunction is satisfiable iff every variable keeps at least one candidate (the variables are
// independent of each other, their domain constraints are already in the candidate lists), and any choice of
// remaining candidates is a model. ok=false: some literal mentions several variables or an unlisted one.
func (x *Explorer) fdSolve(lits []*Term) (sat bool, m Model, ok bool) {
	if fdOff {
		return false, nil, false
	}
	feas := map[*Term][]uint64{}
	for _, l := range lits {
		cond, want := l, true
		for cond.Op == OpBNot {
			cond, want = cond.A, !want
		}
		if cond.IsConst() {
			if (cond.Val != 0) != want {
				return false, nil, true
			}
			continue
		}
		v := fdVar(cond)
		if v == nil {
			return false, nil, false
		}
		truth := fdTruthOf(cond, v)
		f, seen := feas[v]
		if !seen {
			n := len(fdDomains[v].vals)
			f = make([]uint64, fdWords(n))
			for i := range f {
				f[i] = ^uint64(0)
			}
			if r := uint(n) % 64; r != 0 {
				f[len(f)-1] = (uint64(1) << r) - 1
			}
			feas[v] = f
		}
		any := false
		for i := range f {
			if want {
				f[i] &= truth[i]
			} else {
				f[i] &^= truth[i]
			}
			if f[i] != 0 {
				any = true
			}
		}
		if !any {
			return false, nil, true
		}
	}
	m = Model{}
	for v, f := range feas {
		d := fdDomains[v]
		// prefer the variable's default value when it is still a candidate (keeps models stable), else the first candidate
		if i, in := d.idx[varDefault(v)&mask(v.W)]; in && f[i/64]&(1<<(uint(i)%64)) != 0 {
			m[v] = d.vals[i]
			continue
		}
		for i := range f {
			if f[i] != 0 {
				b := 0
				for f[i]&(1<<uint(b)) == 0 {
					b++
				}
				m[v] = d.vals[i*64+b]
				break
			}
		}
	}
	return true, m, true
}
