package interp

// Intrinsics: models of runtime-linked std functions, Unicode predicates as SMT
// functions, and the harness API (verif*).

import (
	"fmt"
	"go/types"
	"os"
	"sort"
	"strings"
	"unicode"

	"golang.org/x/tools/go/ssa"
)

type intrinsic func(fr *frame, args []value) (value, bool)

var intrinsicCache = map[*ssa.Function]intrinsic{}
var intrinsicSeen = map[*ssa.Function]bool{}

// Interception sets (named), installed by verifWithStubs.
var activeStubs = map[string]string{}

func intrinsicFor(fn *ssa.Function) intrinsic {
	if intrinsicSeen[fn] {
		h := intrinsicCache[fn]
		if h == nil && len(activeStubs) > 0 {
			return stubFor(fn)
		}
		return h
	}
	intrinsicSeen[fn] = true
	name := fn.String()
	var h intrinsic
	if fn.Pkg != nil && strings.HasPrefix(fn.Name(), "verif") && fn.Parent() == nil && fn.Signature.Recv() == nil {
		if f, ok := verifAPI[fn.Name()]; ok {
			h = f
		}
	}
	if h == nil {
		if f, ok := intrinsics[name]; ok {
			h = f
		}
	}
	// package initialisers of packages that need the runtime are skipped
	if h == nil && fn.Name() == "init" && fn.Synthetic != "" && fn.Pkg != nil {
		if !initAllowed(fn.Pkg.Pkg.Path()) {
			h = func(fr *frame, args []value) (value, bool) { return nil, true }
		}
	}
	intrinsicCache[fn] = h
	if h == nil && len(activeStubs) > 0 {
		return stubFor(fn)
	}
	return h
}

func stubFor(fn *ssa.Function) intrinsic {
	kind, ok := activeStubs[fn.String()]
	if !ok {
		return nil
	}
	return func(fr *frame, args []value) (value, bool) {
		X.Intrinsics["stub:"+fn.String()]++
		switch kind {
		case "noop":
			return nil, true
		case "identity": // returns its receiver / first argument
			return args[0], true
		case "nil":
			return zero(fn.Signature.Results().At(0).Type()), true
		case "true":
			return true, true
		case "false":
			return false, true
		}
		panic(engineBug("unknown stub kind " + kind))
	}
}

var initAllow = map[string]bool{
	"unicode": true, "unicode/utf8": true, "unicode/utf16": true, "strconv": true, "strings": true, "bytes": true,
	"sort": true, "slices": true, "maps": true, "iter": true, "cmp": true, "container/list": true,
	"math": true, "math/bits": true, "encoding/binary": true, "io": true, "regexp": true, "regexp/syntax": true,
	"internal/bytealg": true, "internal/byteorder": true, "internal/stringslite": true,
}

func initAllowed(path string) bool {
	if initAllow[path] {
		return true
	}
	return strings.HasPrefix(path, "github.com/dlclark/regexp2")
}

// poolObjPtr returns the pointer identity of a pooled object (pools of the code under test hold pointers).
func poolObjPtr(v value) (*value, bool) {
	if it, ok := v.(iface); ok {
		v = it.v
	}
	p, ok := v.(*value)
	return p, ok && p != nil
}

func poolNewField(recv *value) *value {
	st := (*recv).(structure)
	return &st[len(st)-1] // New is the last field of sync.Pool
}

var opaqueErrType types.Type

var intrinsics map[string]intrinsic

func init() {
	nop := func(fr *frame, args []value) (value, bool) { return nil, true }
	intrinsics = map[string]intrinsic{
		"(*sync.Pool).Get": func(fr *frame, args []value) (value, bool) {
			p := args[0].(*value)
			yield("pool.Get")
			st := X.pools[p]
			if n := len(st); n > 0 {
				v := st[n-1]
				old := st
				X.trailUndo(func() { X.pools[p] = old })
				X.pools[p] = append([]value(nil), st[:n-1]...)
				poolGet(v)
				return v, true
			}
			newf := *poolNewField(p)
			switch f := newf.(type) {
			case *ssa.Function:
				if f == nil {
					return iface{}, true
				}
			case nil:
				return iface{}, true
			}
			return call(fr.i, fr, 0, newf, nil), true
		},
		"(*sync.Pool).Put": func(fr *frame, args []value) (value, bool) {
			p := args[0].(*value)
			yield("pool.Put")
			if it, ok := args[1].(iface); ok && it.t == nil {
				return nil, true
			}
			poolPut(args[1])
			old := X.pools[p]
			// ownership discipline: an object is handed back once. The same pointer stored twice would be
			// handed to two later callers (possibly two goroutines) at once.
			if np, ok := poolObjPtr(args[1]); ok {
				for _, e := range old {
					if ep, ok := poolObjPtr(e); ok && ep == np {
						X.violation("pool-double-put", "the same object was returned to a sync.Pool twice")
					}
				}
			}
			X.trailUndo(func() { X.pools[p] = old })
			X.pools[p] = append(append([]value(nil), old...), args[1])
			return nil, true
		},
		"(*sync.Mutex).Lock":      func(fr *frame, args []value) (value, bool) { mutexLock(args[0].(*value)); return nil, true },
		"(*sync.Mutex).Unlock":    func(fr *frame, args []value) (value, bool) { mutexUnlock(args[0].(*value)); return nil, true },
		"(*sync.RWMutex).Lock":    func(fr *frame, args []value) (value, bool) { mutexLock(args[0].(*value)); return nil, true },
		"(*sync.RWMutex).Unlock":  func(fr *frame, args []value) (value, bool) { mutexUnlock(args[0].(*value)); return nil, true },
		"(*sync.RWMutex).RLock":   func(fr *frame, args []value) (value, bool) { mutexLock(args[0].(*value)); return nil, true },
		"(*sync.RWMutex).RUnlock": func(fr *frame, args []value) (value, bool) { mutexUnlock(args[0].(*value)); return nil, true },
		"sync/atomic.LoadInt64": func(fr *frame, args []value) (value, bool) {
			yield("atomic.Load")
			logAccess(args[0].(*value), false, true)
			return *args[0].(*value), true
		},
		"sync/atomic.StoreInt64": func(fr *frame, args []value) (value, bool) {
			yield("atomic.Store")
			logAccess(args[0].(*value), true, true)
			tstore(args[0].(*value), args[1])
			return nil, true
		},
		"sync/atomic.LoadInt32": func(fr *frame, args []value) (value, bool) {
			yield("atomic.Load")
			logAccess(args[0].(*value), false, true)
			return *args[0].(*value), true
		},
		"sync/atomic.StoreInt32": func(fr *frame, args []value) (value, bool) {
			yield("atomic.Store")
			logAccess(args[0].(*value), true, true)
			tstore(args[0].(*value), args[1])
			return nil, true
		},
		"time.Now": func(fr *frame, args []value) (value, bool) {
			if Sched == nil {
				return nil, false
			}
			return virtualTime(clockNow()), true
		},
		"time.Since": func(fr *frame, args []value) (value, bool) {
			if Sched == nil {
				return nil, false
			}
			t := args[0].(structure)
			ext, _ := termOf(t[1])
			return mkVal(types.Int64, TBin(OpSub, TBin(OpAdd, clockNow(), TConst(64, 1)), ext)), true
		},
		"time.Sleep": func(fr *frame, args []value) (value, bool) {
			if Sched == nil {
				return nil, true
			}
			timeSleep(args[0])
			return nil, true
		},
		"(time.Time).IsZero": func(fr *frame, args []value) (value, bool) {
			t := args[0].(structure)
			w, _ := termOf(t[0])
			e, _ := termOf(t[1])
			return mkVal(types.Bool, TAnd(TEq(w, TConst(64, 0)), TEq(e, TConst(64, 0)))), true
		},
		"fmt.Sprintf":  opaqueString,
		"fmt.Sprint":   opaqueString,
		"fmt.Sprintln": opaqueString,
		"fmt.Errorf":   opaqueError,
		"fmt.Printf":   func(fr *frame, args []value) (value, bool) { return tuple{0, iface{}}, true },
		"fmt.Println":  func(fr *frame, args []value) (value, bool) { return tuple{0, iface{}}, true },
		"fmt.Print":    func(fr *frame, args []value) (value, bool) { return tuple{0, iface{}}, true },
		"fmt.Fprintf":  func(fr *frame, args []value) (value, bool) { return tuple{0, iface{}}, true },
		"fmt.Fprintln": func(fr *frame, args []value) (value, bool) { return tuple{0, iface{}}, true },
		"fmt.Fprint":   func(fr *frame, args []value) (value, bool) { return tuple{0, iface{}}, true },
		"log.Printf":   nop,
		"log.Println":  nop,
		"log.Print":    nop,
		"errors.New": func(fr *frame, args []value) (value, bool) {
			// errors.New needs no runtime support, run its SSA body
			return nil, false
		},
		"unicode.Is": func(fr *frame, args []value) (value, bool) {
			r, ok := args[1].(sym)
			tab := hostTable(args[0].(*value))
			if !ok {
				return unicode.Is(tab.t, args[1].(rune)), true
			}
			return mkVal(types.Bool, TApp(tab.pred(), r.t)), true
		},
		"unicode.In": func(fr *frame, args []value) (value, bool) {
			tabs := args[1].([]value)
			r, ok := args[0].(sym)
			if !ok {
				for _, t := range tabs {
					if unicode.Is(hostTable(t.(*value)).t, args[0].(rune)) {
						return true, true
					}
				}
				return false, true
			}
			res := TFalse
			for _, t := range tabs {
				res = TOr(res, TApp(hostTable(t.(*value)).pred(), r.t))
			}
			return mkVal(types.Bool, res), true
		},
		"unicode.IsSpace":    runePred("IsSpace", unicode.IsSpace),
		"unicode.IsDigit":    runePred("IsDigit", unicode.IsDigit),
		"unicode.IsLetter":   runePred("IsLetter", unicode.IsLetter),
		"unicode.IsUpper":    runePred("IsUpper", unicode.IsUpper),
		"unicode.IsLower":    runePred("IsLower", unicode.IsLower),
		"unicode.IsPrint":    runePred("IsPrint", unicode.IsPrint),
		"unicode.IsControl":  runePred("IsControl", unicode.IsControl),
		"unicode.IsPunct":    runePred("IsPunct", unicode.IsPunct),
		"unicode.IsNumber":   runePred("IsNumber", unicode.IsNumber),
		"unicode.IsMark":     runePred("IsMark", unicode.IsMark),
		"unicode.IsSymbol":   runePred("IsSymbol", unicode.IsSymbol),
		"unicode.IsTitle":    runePred("IsTitle", unicode.IsTitle),
		"unicode.IsGraphic":  runePred("IsGraphic", unicode.IsGraphic),
		"unicode.ToLower":    runeFunc("ToLower", unicode.ToLower),
		"unicode.ToUpper":    runeFunc("ToUpper", unicode.ToUpper),
		"unicode.ToTitle":    runeFunc("ToTitle", unicode.ToTitle),
		"unicode.SimpleFold": runeFunc("SimpleFold", unicode.SimpleFold),
		"unicode/utf8.DecodeRuneInString": func(fr *frame, args []value) (value, bool) {
			r, n := decodeSym(strBytes(args[0]))
			return tuple{r, n}, true
		},
		"unicode/utf8.DecodeRune": func(fr *frame, args []value) (value, bool) {
			r, n := decodeSym(args[0].([]value))
			return tuple{r, n}, true
		},
		"unicode/utf8.RuneLen": func(fr *frame, args []value) (value, bool) {
			r, ok := args[0].(sym)
			if !ok {
				return nil, false
			}
			return len(encodeSymRuneBytesLen(r)), true
		},
		"unicode/utf8.AppendRune": func(fr *frame, args []value) (value, bool) {
			r, ok := args[1].(sym)
			if !ok {
				return nil, false
			}
			return tappend(args[0].([]value), encodeSymRuneBytes(r)), true
		},
		"unicode/utf8.EncodeRune": func(fr *frame, args []value) (value, bool) {
			r, ok := args[1].(sym)
			if !ok {
				return nil, false
			}
			b := encodeSymRuneBytes(r)
			dst := args[0].([]value)
			if len(dst) < len(b) {
				panic(boundsError{"index out of range in EncodeRune"})
			}
			tcopy(dst, b)
			return len(b), true
		},
		"internal/bytealg.IndexByteString": func(fr *frame, args []value) (value, bool) {
			return indexByteSym(strBytes(args[0]), args[1]), true
		},
		"internal/bytealg.IndexByte": func(fr *frame, args []value) (value, bool) {
			return indexByteSym(args[0].([]value), args[1]), true
		},
		"internal/bytealg.CountString": func(fr *frame, args []value) (value, bool) {
			return countByteSym(strBytes(args[0]), args[1]), true
		},
		"internal/bytealg.Count": func(fr *frame, args []value) (value, bool) {
			return countByteSym(args[0].([]value), args[1]), true
		},
		"internal/bytealg.Equal": func(fr *frame, args []value) (value, bool) {
			return mkVal(types.Bool, symstrEq(args[0].([]value), args[1].([]value))), true
		},
		"internal/bytealg.IndexString": func(fr *frame, args []value) (value, bool) {
			return indexStringSym(strBytes(args[0]), strBytes(args[1])), true
		},
		"internal/bytealg.Index": func(fr *frame, args []value) (value, bool) {
			return indexStringSym(args[0].([]value), args[1].([]value)), true
		},
		"internal/bytealg.MakeNoZero": func(fr *frame, args []value) (value, bool) {
			n := int(concreteInt(args[0], "MakeNoZero"))
			s := make([]value, n)
			for i := range s {
				s[i] = byte(0)
			}
			return s, true
		},
		"internal/bytealg.Cutover":         func(fr *frame, args []value) (value, bool) { return 64, true },
		"internal/stringslite.HasPrefix":   nil,
		"strings.(*Builder).copyCheck":     nop,
		"(*strings.Builder).copyCheck":     nop,
		"(*strings.Builder).String":        stringsBuilderString,
		"unsafe.String":                    nil,
		"internal/abi.NoEscape":            func(fr *frame, args []value) (value, bool) { return args[0], true },
		"internal/abi.Escape":              func(fr *frame, args []value) (value, bool) { return args[0], true },
		"internal/race.Enabled":            nil,
		"runtime.KeepAlive":                nop,
		"internal/bytealg.init":            nop,
		"os.Getenv":                        func(fr *frame, args []value) (value, bool) { return "", true },
		"internal/godebug.New":             func(fr *frame, args []value) (value, bool) { return (*value)(nil), true },
		"(*internal/godebug.Setting).Value": func(fr *frame, args []value) (value, bool) { return "", true },
		"slices.overlaps[[]rune]":          nil,
		"github.com/dlclark/regexp2/v2/helpers.bytesEqual": func(fr *frame, args []value) (value, bool) {
			// unsafe.Slice over the rune storage + bytes.Equal: &a[0] panics on an empty slice
			a, b := args[0].([]value), args[1].([]value)
			if len(a) == 0 || len(b) == 0 {
				panic(boundsError{"index out of range [0] with length 0"})
			}
			X.Intrinsics["helpers.bytesEqual"]++
			if len(a) != len(b) {
				return false, true
			}
			r := TTrue
			for i := range a {
				r = TAnd(r, eqTerm(a[i], b[i]))
			}
			return mkVal(types.Bool, r), true
		},
	}
	for k, v := range intrinsics {
		if v == nil {
			delete(intrinsics, k)
		}
	}
}

func opaqueString(fr *frame, args []value) (value, bool) {
	X.Intrinsics["fmt-opaque"]++
	if s, ok := args[0].(string); ok {
		return "<fmt:" + s + ">", true
	}
	return "<fmt>", true
}

func opaqueError(fr *frame, args []value) (value, bool) {
	X.Intrinsics["fmt-opaque"]++
	// build an *errors.errorString by calling errors.New from SSA
	msg := "<fmt>"
	if s, ok := args[0].(string); ok {
		msg = "<fmt:" + s + ">"
	}
	pkg := fr.i.prog.ImportedPackage("errors")
	return call(fr.i, fr, 0, pkg.Func("New"), []value{msg}), true
}

// strings.Builder keeps a []byte and converts it with unsafe.String.
func stringsBuilderString(fr *frame, args []value) (value, bool) {
	st := (*args[0].(*value)).(structure)
	// fields: addr *Builder, buf []byte
	buf := st[len(st)-1].([]value)
	return mkStr(append([]value(nil), buf...)), true
}

func indexByteSym(s []value, c value) value {
	for i, b := range s {
		eq := eqTerm(b, c)
		if X.decide(eq, "IndexByte") {
			return i
		}
	}
	return -1
}

func countByteSym(s []value, c value) value {
	n := 0
	for _, b := range s {
		if X.decide(eqTerm(b, c), "Count") {
			n++
		}
	}
	return n
}

func indexStringSym(s, sub []value) value {
	for i := 0; i+len(sub) <= len(s); i++ {
		if X.decide(symstrEq(s[i:i+len(sub)], sub), "IndexString") {
			return i
		}
	}
	return -1
}

func encodeSymRuneBytesLen(r sym) []value {
	// utf8.RuneLen returns -1 for invalid runes; handle that first
	t := TExt(r.t, 32, true)
	if X.decide(TOr(TBin(OpULt, TConst(32, 0x10FFFF), t), between(t, 0xD800, 0xDFFF)), "runelen") {
		panic(engineBug("utf8.RuneLen of an invalid symbolic rune"))
	}
	return encodeSymRuneBytes(r)
}

// ---------------------------------------------------------------- Unicode tables

type hostTab struct {
	t    *unicode.RangeTable
	name string
}

var hostTabs = map[*value]*hostTab{}
var hostTabN = 0

func hostTable(p *value) *hostTab {
	if h, ok := hostTabs[p]; ok {
		return h
	}
	st := (*p).(structure)
	t := &unicode.RangeTable{}
	for _, e := range st[0].([]value) {
		r := e.(structure)
		t.R16 = append(t.R16, unicode.Range16{Lo: r[0].(uint16), Hi: r[1].(uint16), Stride: r[2].(uint16)})
	}
	for _, e := range st[1].([]value) {
		r := e.(structure)
		t.R32 = append(t.R32, unicode.Range32{Lo: r[0].(uint32), Hi: r[1].(uint32), Stride: r[2].(uint32)})
	}
	t.LatinOffset = st[2].(int)
	h := &hostTab{t: t}
	hostTabs[p] = h
	return h
}

func (h *hostTab) pred() string {
	if h.name == "" {
		hostTabN++
		h.name = fmt.Sprintf("rt%d", hostTabN)
		t := h.t
		registerRunePred(h.name, func(r rune) bool { return unicode.Is(t, r) })
	}
	return h.name
}

// RuneDomain, when non-nil, restricts the runes the generated predicates and
// functions need to be exact on (quick tier); outside it they are unspecified
// (every rune variable is constrained to the domain).
var RuneDomain [][2]rune

func domainRanges() [][2]rune {
	if RuneDomain != nil {
		return RuneDomain
	}
	return [][2]rune{{0, unicode.MaxRune}}
}

type rpiece struct {
	lo, hi rune
	alt    bool  // stride-2 pattern
	delta  int32 // for functions
}

func registerRunePred(name string, f func(rune) bool) {
	if _, ok := tt.defs[name]; ok {
		return
	}
	var ps []rpiece
	for _, d := range domainRanges() {
		r := d[0]
		for r <= d[1] {
			if !f(r) {
				r++
				continue
			}
			lo := r
			for r+1 <= d[1] && f(r+1) {
				r++
			}
			if r == lo {
				// try a stride-2 run: T F T F T
				e := lo
				for e+2 <= d[1] && !f(e+1) && f(e+2) {
					e += 2
				}
				if e >= lo+4 {
					ps = append(ps, rpiece{lo: lo, hi: e, alt: true})
					r = e + 1
					continue
				}
			}
			ps = append(ps, rpiece{lo: lo, hi: r})
			r++
		}
	}
	c := func(r rune) string { return constStr(32, uint64(uint32(r))) }
	leaf := func(p rpiece) string {
		var s string
		if p.lo == p.hi {
			s = fmt.Sprintf("(= r %s)", c(p.lo))
		} else {
			s = fmt.Sprintf("(and (bvule %s r) (bvule r %s))", c(p.lo), c(p.hi))
		}
		if p.alt {
			bit := "#b0"
			if p.lo&1 == 1 {
				bit = "#b1"
			}
			s = fmt.Sprintf("(and %s (= ((_ extract 0 0) r) %s))", s, bit)
		}
		return s
	}
	var tree func(ps []rpiece) string
	tree = func(ps []rpiece) string {
		if len(ps) == 0 {
			return "false"
		}
		if len(ps) == 1 {
			return leaf(ps[0])
		}
		m := len(ps) / 2
		return fmt.Sprintf("(ite (bvult r %s) %s %s)", c(ps[m].lo), tree(ps[:m]), tree(ps[m:]))
	}
	smt := fmt.Sprintf("(define-fun %s ((r (_ BitVec 32))) Bool %s)", name, tree(ps))
	RegisterApp(&AppDef{Name: name, ArgW: []uint8{32}, ResW: 0, SMT: smt,
		Native: func(a []uint64) uint64 { return b2u(f(rune(int32(uint32(a[0]))))) }})
}

func registerRuneFunc(name string, f func(rune) rune) {
	if _, ok := tt.defs[name]; ok {
		return
	}
	var ps []rpiece
	for _, d := range domainRanges() {
		r := d[0]
		for r <= d[1] {
			dl := f(r) - r
			if dl == 0 {
				r++
				continue
			}
			lo := r
			// alternating +1,-1,+1,-1 ... : f(x) = lo + ((x-lo) xor 1)
			if dl == 1 {
				e := lo
				for e+1 <= d[1] && f(e) == e+1 && f(e+1) == e {
					e += 2
				}
				if e > lo {
					ps = append(ps, rpiece{lo: lo, hi: e - 1, alt: true})
					r = e
					continue
				}
			}
			for r+1 <= d[1] && f(r+1)-(r+1) == dl {
				r++
			}
			ps = append(ps, rpiece{lo: lo, hi: r, delta: dl})
			r++
		}
	}
	c := func(r rune) string { return constStr(32, uint64(uint32(r))) }
	leaf := func(p rpiece) string {
		var in, e string
		if p.lo == p.hi {
			in = fmt.Sprintf("(= r %s)", c(p.lo))
		} else {
			in = fmt.Sprintf("(and (bvule %s r) (bvule r %s))", c(p.lo), c(p.hi))
		}
		if p.alt {
			e = fmt.Sprintf("(bvadd %s (bvxor (bvsub r %s) #x00000001))", c(p.lo), c(p.lo))
		} else {
			e = fmt.Sprintf("(bvadd r %s)", c(rune(p.delta)))
		}
		return fmt.Sprintf("(ite %s %s r)", in, e)
	}
	var tree func(ps []rpiece) string
	tree = func(ps []rpiece) string {
		if len(ps) == 0 {
			return "r"
		}
		if len(ps) == 1 {
			return leaf(ps[0])
		}
		m := len(ps) / 2
		return fmt.Sprintf("(ite (bvult r %s) %s %s)", c(ps[m].lo), tree(ps[:m]), tree(ps[m:]))
	}
	smt := fmt.Sprintf("(define-fun %s ((r (_ BitVec 32))) (_ BitVec 32) %s)", name, tree(ps))
	RegisterApp(&AppDef{Name: name, ArgW: []uint8{32}, ResW: 32, SMT: smt,
		Native: func(a []uint64) uint64 { return uint64(uint32(f(rune(int32(uint32(a[0])))))) }})
}

func runePred(name string, f func(rune) bool) intrinsic {
	return func(fr *frame, args []value) (value, bool) {
		r, ok := args[0].(sym)
		if !ok {
			return f(args[0].(rune)), true
		}
		registerRunePred("u"+name, f)
		return mkVal(types.Bool, TApp("u"+name, r.t)), true
	}
}

func runeFunc(name string, f func(rune) rune) intrinsic {
	return func(fr *frame, args []value) (value, bool) {
		r, ok := args[0].(sym)
		if !ok {
			return f(args[0].(rune)), true
		}
		registerRuneFunc("u"+name, f)
		return mkVal(types.Int32, TApp("u"+name, r.t)), true
	}
}

var _ = os.Stderr

// SetRuneDomain selects the rune domain: "full" = all of Unicode, "quick" = the
// clipped domain D_q of DESIGN.md section 2.4 closed under the simple case maps.
func SetRuneDomain(name string) {
	tt.defs = map[string]*AppDef{}
	for _, h := range hostTabs {
		h.name = ""
	}
	if name == "full" {
		RuneDomain = nil
		return
	}
	if name == "case" {
		// small domain for the case-insensitivity property: ASCII, Latin-1, Greek and Cyrillic letters (+ closure)
		setDomainFrom([][2]rune{{0, 0xFF}, {0x391, 0x3C9}, {0x410, 0x44F}, {0x10FFFF, 0x10FFFF}})
		return
	}
	setDomainFrom([][2]rune{{0, 0x24F}, {0x300, 0x303}, {0x370, 0x45F}, {0x660, 0x669}, {0x1E9E, 0x1E9E}, {0x200C, 0x200D}, {0x2028, 0x2029},
		{0x212A, 0x212A}, {0xD7FF, 0xD7FF}, {0xE000, 0xE000}, {0xFF21, 0xFF3A}, {0xFFFD, 0xFFFD}, {0x10000, 0x1004F}, {0x1D400, 0x1D433}, {0x10FFFF, 0x10FFFF}})
}

func setDomainFrom(base [][2]rune) {
	in := map[rune]bool{}
	var work []rune
	add := func(r rune) {
		if !in[r] {
			in[r] = true
			work = append(work, r)
		}
	}
	for _, b := range base {
		for r := b[0]; r <= b[1]; r++ {
			add(r)
		}
	}
	for len(work) > 0 {
		r := work[len(work)-1]
		work = work[:len(work)-1]
		add(unicode.ToLower(r))
		add(unicode.ToUpper(r))
		add(unicode.ToTitle(r))
		add(unicode.SimpleFold(r))
	}
	var rs []rune
	for r := range in {
		rs = append(rs, r)
	}
	sort.Slice(rs, func(i, j int) bool { return rs[i] < rs[j] })
	RuneDomain = nil
	for _, r := range rs {
		if n := len(RuneDomain); n > 0 && RuneDomain[n-1][1] == r-1 {
			RuneDomain[n-1][1] = r
		} else {
			RuneDomain = append(RuneDomain, [2]rune{r, r})
		}
	}
}


// DomainDescription is quoted in the evidence.
func DomainDescription() string {
	if RuneDomain == nil {
		return "U+0000-U+10FFFF"
	}
	var sb strings.Builder
	n := 0
	for _, d := range RuneDomain {
		n += int(d[1]-d[0]) + 1
	}
	fmt.Fprintf(&sb, "%d runes in %d ranges (D_q closed under simple case maps)", n, len(RuneDomain))
	return sb.String()
}

// virtualTime builds a time.Time whose ext field carries the virtual instant + 1 (never zero).
func virtualTime(now *Term) value {
	return structure{uint64(0), mkVal(types.Int64, TBin(OpAdd, now, TConst(64, 1))), (*value)(nil)}
}
