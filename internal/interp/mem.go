package interp

// Trailed heap operations, symbolic addresses (value-split loads) and maps with
// symbolic keys.

import (
	"fmt"
	"go/token"
	"go/types"
	"sort"
)

func mustDeref(t types.Type) types.Type {
	if p, ok := t.Underlying().(*types.Pointer); ok {
		return p.Elem()
	}
	// pointer to a type parameter's core type etc. cannot occur after instantiation
	panic(engineBug(fmt.Sprintf("mustDeref: %s is not a pointer", t)))
}

func stringElems(s string) []value {
	r := make([]value, len(s))
	for i := 0; i < len(s); i++ {
		r[i] = s[i]
	}
	return r
}

// tappend implements append(dst, src...) with in-place writes going through the trail.
func tappend(dst, src []value) []value {
	if len(src) == 0 {
		return dst
	}
	n := len(dst)
	if n+len(src) <= cap(dst) {
		r := dst[:n+len(src)]
		tmp := make([]value, len(src))
		for i, v := range src {
			tmp[i] = copyVal(v) // src may overlap dst
		}
		for i, v := range tmp {
			assignVal(&r[n+i], v)
		}
		return r
	}
	// grow like the runtime does (amortised doubling); exact capacity is not observable
	// except through cap(), where Go only guarantees "at least".
	nc := 2 * cap(dst)
	if nc < n+len(src) {
		nc = n + len(src)
	}
	if nc < 4 {
		nc = 4
	}
	r := make([]value, n+len(src), nc)
	for i, v := range dst {
		r[i] = copyVal(v)
	}
	for i, v := range src {
		r[n+i] = copyVal(v)
	}
	return r
}

// copyVal copies aggregate values (the interpreter represents structs and arrays
// as Go slices, so a plain assignment would alias them).
func copyVal(v value) value {
	switch x := v.(type) {
	case structure:
		c := make(structure, len(x))
		for i, e := range x {
			c[i] = copyVal(e)
		}
		return c
	case array:
		c := make(array, len(x))
		for i, e := range x {
			c[i] = copyVal(e)
		}
		return c
	}
	return v
}

// assignVal stores src into *dst in place (field by field for aggregates, so
// that pointers into the destination stay valid), through the trail.
func assignVal(dst *value, src value) {
	switch x := src.(type) {
	case structure:
		if d, ok := (*dst).(structure); ok && len(d) == len(x) {
			for i := range x {
				assignVal(&d[i], x[i])
			}
			return
		}
		tstore(dst, copyVal(src))
		return
	case array:
		if d, ok := (*dst).(array); ok && len(d) == len(x) {
			for i := range x {
				assignVal(&d[i], x[i])
			}
			return
		}
		tstore(dst, copyVal(src))
		return
	}
	tstore(dst, src)
}

func tcopy(dst, src []value) int {
	n := len(dst)
	if len(src) < n {
		n = len(src)
	}
	if n == 0 {
		return 0
	}
	// overlapping copies: snapshot the source first
	tmp := make([]value, n)
	for i := 0; i < n; i++ {
		tmp[i] = copyVal(src[i])
	}
	for i := 0; i < n; i++ {
		assignVal(&dst[i], tmp[i])
	}
	return n
}

func mapUpdate(m, key, v value) {
	switch m := m.(type) {
	case map[value]value:
		if hasSym(key) {
			if k2, ok := resolveSymKey(m, key); ok {
				key = k2
			} else {
				key = concretiseValue(key)
			}
		}
		old, had := m[key]
		X.trailUndo(func() {
			if had {
				m[key] = old
			} else {
				delete(m, key)
			}
		})
		m[key] = v
	case *hashmap:
		if hasSym(key) {
			panic(engineBug("symbolic key in struct-keyed map"))
		}
		hk := key.(hashable)
		old := m.lookup(hk)
		X.trailUndo(func() {
			if old != nil {
				m.insert(hk, old)
			} else {
				m.delete(hk)
			}
		})
		m.insert(hk, v)
	default:
		panic(engineBug(fmt.Sprintf("illegal map type: %T", m)))
	}
}

func mapDelete(m, key value) {
	switch m := m.(type) {
	case map[value]value:
		if hasSym(key) {
			k2, ok := resolveSymKey(m, key)
			if !ok {
				return
			}
			key = k2
		}
		old, had := m[key]
		if !had {
			return
		}
		X.trailUndo(func() { m[key] = old })
		delete(m, key)
	case *hashmap:
		hk := key.(hashable)
		old := m.lookup(hk)
		if old == nil {
			return
		}
		X.trailUndo(func() { m.insert(hk, old) })
		m.delete(hk)
	default:
		panic(engineBug(fmt.Sprintf("illegal map type: %T", m)))
	}
}

func hasSym(v value) bool {
	switch v.(type) {
	case sym, symstr:
		return true
	}
	return false
}

// concretiseValue forces a symbolic scalar or string to a concrete value.
func concretiseValue(v value) value {
	switch x := v.(type) {
	case sym:
		return constOfKind(x.k, X.concretise(x.t, "value"))
	case symstr:
		b := make([]byte, len(x.b))
		for i, e := range x.b {
			if s, ok := e.(sym); ok {
				b[i] = byte(X.concretise(s.t, "strbyte"))
			} else {
				b[i] = e.(byte)
			}
		}
		return string(b)
	}
	return v
}

// eqTerm returns the term "a == b" for scalars or strings (concrete or symbolic).
func eqTerm(a, b value) *Term {
	if isSymstr(a) || isSymstr(b) {
		return symstrEq(strBytes(a), strBytes(b))
	}
	ta, _ := termOf(a)
	tb, _ := termOf(b)
	return TEq(ta, tb)
}

// resolveSymKey finds the concrete key of m equal to the symbolic key on this
// path (forking per candidate), or reports that no key is.
func resolveSymKey(m map[value]value, key value) (value, bool) {
	var cands []value
	for k := range m {
		switch kk := k.(type) {
		case string:
			if ks, ok := key.(symstr); ok && len(ks.b) == len(kk) {
				cands = append(cands, k)
			}
		default:
			if _, ok := key.(sym); ok {
				cands = append(cands, k)
			}
		}
	}
	if len(cands) == 0 {
		return nil, false
	}
	sort.Slice(cands, func(i, j int) bool { return lessValue(cands[i], cands[j]) })
	present := TFalse
	eqs := make([]*Term, len(cands))
	for i, c := range cands {
		eqs[i] = eqTerm(key, c)
		present = TOr(present, eqs[i])
	}
	if !X.decide(present, "mapkey-present") {
		return nil, false
	}
	for i, c := range cands {
		if X.decide(eqs[i], "mapkey") {
			return c, true
		}
	}
	panic(pathAbort{"infeasible"})
}

func lessValue(a, b value) bool {
	switch x := a.(type) {
	case string:
		return x < b.(string)
	}
	_, ua, ok1 := kindOf(a)
	_, ub, ok2 := kindOf(b)
	if ok1 && ok2 {
		return ua < ub
	}
	return fmt.Sprint(a) < fmt.Sprint(b)
}

func symIte(c value, a, b value) value {
	switch cc := c.(type) {
	case bool:
		if cc {
			return a
		}
		return b
	case sym:
		ta, k := termOf(a)
		tb, _ := termOf(b)
		return mkVal(k, TIte(cc.t, ta, tb))
	}
	panic(engineBug("symIte"))
}

// ---------------------------------------------------------------- symbolic addresses

// symAddr is &elems[idx] for a symbolic, in-bounds idx.
type symAddr struct {
	elems []value
	idx   sym
}

type boundsError struct{ msg string }

func (e boundsError) Error() string { return "runtime error: " + e.msg }
func (boundsError) RuntimeError()   {}

func symIndexAddr(elems []value, idx sym) symAddr {
	// the index is widened to 64 bits by its Go type first: a byte index into a 256-element table is always in
	// bounds (256 does not fit the index width), a negative signed index never is
	wide := idx.t
	if wide.W < 64 {
		wide = TExt(wide, 64, kindSigned(idx.k))
	}
	inb := TBin(OpULt, wide, TConst(64, uint64(len(elems))))
	if len(elems) == 0 || !X.decide(inb, "bounds") {
		panic(boundsError{fmt.Sprintf("index out of range [symbolic] with length %d", len(elems))})
	}
	return symAddr{elems, idx}
}

func (a symAddr) concretePtr() *value {
	i := X.concretise(a.idx.t, "index")
	return &a.elems[i]
}

const valueSplitMax = 16

func (a symAddr) load() value {
	// all elements must be scalars of one kind
	var kind types.BasicKind
	anySym := false
	for i, e := range a.elems {
		var k types.BasicKind
		if s, ok := e.(sym); ok {
			k = s.k
			anySym = true
		} else if kk, _, ok := kindOf(e); ok {
			k = kk
		} else {
			p := a.concretePtr()
			return *p
		}
		if i == 0 {
			kind = k
		} else if k != kind {
			p := a.concretePtr()
			return *p
		}
	}
	w := a.idx.t.W
	type run struct {
		lo, hi int
		v      value
	}
	var runs []run
	for i, e := range a.elems {
		if n := len(runs); n > 0 && !anySym && runs[n-1].v == e {
			runs[n-1].hi = i
			continue
		}
		runs = append(runs, run{i, i, e})
	}
	inRun := func(r run) *Term {
		if r.lo == r.hi {
			return TEq(a.idx.t, TConst(w, uint64(r.lo)))
		}
		c := TBin(OpULe, a.idx.t, TConst(w, uint64(r.hi)))
		if r.lo > 0 {
			c = TAnd(TBin(OpULe, TConst(w, uint64(r.lo)), a.idx.t), c)
		}
		return c
	}
	if !anySym {
		// distinct values, in order of first occurrence
		var vals []value
		conds := map[value]*Term{}
		for _, r := range runs {
			if _, ok := conds[r.v]; !ok {
				vals = append(vals, r.v)
				conds[r.v] = TFalse
			}
			conds[r.v] = TOr(conds[r.v], inRun(r))
		}
		if len(vals) <= valueSplitMax {
			X.Intrinsics["value-split-load"]++
			for i, v := range vals {
				if i == len(vals)-1 {
					return v
				}
				if X.decide(conds[v], "load") {
					return v
				}
			}
		}
	}
	if len(runs) > 4096 {
		p := a.concretePtr()
		return *p
	}
	X.Intrinsics["ite-load"]++
	tl, _ := termOf(runs[len(runs)-1].v)
	for i := len(runs) - 2; i >= 0; i-- {
		tv, _ := termOf(runs[i].v)
		tl = TIte(inRun(runs[i]), tv, tl)
	}
	return mkVal(kind, tl)
}

var _ = token.ADD

// deepHasSym reports whether an aggregate value holds symbolic data.
func deepHasSym(v value) bool {
	switch x := v.(type) {
	case sym, symstr:
		return true
	case structure:
		for _, e := range x {
			if deepHasSym(e) {
				return true
			}
		}
	case array:
		for _, e := range x {
			if deepHasSym(e) {
				return true
			}
		}
	case iface:
		return deepHasSym(x.v)
	}
	return false
}

// deepEqTerm is Go's == on comparable values as a term.
func deepEqTerm(t types.Type, x, y value) *Term {
	switch a := x.(type) {
	case structure:
		b := y.(structure)
		r := TTrue
		for i := range a {
			r = TAnd(r, deepEqTerm(nil, a[i], b[i]))
		}
		return r
	case array:
		b := y.(array)
		r := TTrue
		for i := range a {
			r = TAnd(r, deepEqTerm(nil, a[i], b[i]))
		}
		return r
	case iface:
		b := y.(iface)
		if !sameType(a.t, b.t) {
			return TFalse
		}
		if a.t == nil {
			return TTrue
		}
		return deepEqTerm(a.t, a.v, b.v)
	}
	if hasSym(x) || hasSym(y) {
		return eqTerm(x, y)
	}
	if t == nil {
		// element of an aggregate: scalars, strings and pointers compare natively
		return TBool(x == y)
	}
	return TBool(eqnil(t, x, y))
}
