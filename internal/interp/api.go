package interp

// Public API of the engine: load-independent machine construction, package
// initialisation, harness calls and the harness-side verif* API.

import (
	"fmt"
	"go/token"
	"go/types"
	"runtime"
	"sort"
	"strings"
	"unicode"

	"golang.org/x/tools/go/ssa"
)

type Machine struct {
	I    *interpreter
	Prog *ssa.Program
}

func NewMachine(prog *ssa.Program, sizes types.Sizes) *Machine {
	i := &interpreter{
		prog:       prog,
		globals:    make(map[*ssa.Global]*value),
		sizes:      sizes,
		goroutines: 1,
	}
	if runtimePkg := prog.ImportedPackage("runtime"); runtimePkg != nil {
		i.runtimeErrorString = runtimePkg.Type("errorString").Object().Type()
	}
	initReflect(i)
	for _, pkg := range prog.AllPackages() {
		for _, m := range pkg.Members {
			if v, ok := m.(*ssa.Global); ok {
				cell := zero(mustDeref(v.Type()))
				i.globals[v] = &cell
			}
		}
	}
	return &Machine{I: i, Prog: prog}
}

// TargetPanic describes a Go-level panic of the interpreted program.
type TargetPanic struct {
	Msg     string
	Runtime bool // a Go run-time error (index out of range, nil dereference, ...)
}

// Call runs fn; a panic of the target program is returned, engine problems propagate.
func (m *Machine) Call(fn *ssa.Function, args ...value) (res value, tp *TargetPanic) {
	defer func() {
		if r := recover(); r != nil {
			tp = classifyPanic(r)
			if tp == nil {
				panic(r)
			}
		}
	}()
	res = call(m.I, nil, token.NoPos, fn, args)
	return
}

func classifyPanic(r any) *TargetPanic {
	switch p := r.(type) {
	case targetPanic:
		return &TargetPanic{Msg: toString(p.v)}
	case pathAbort, engineBug, coroKill:
		return nil
	case *runtime.TypeAssertionError:
		return nil
	case runtime.Error:
		return &TargetPanic{Msg: p.Error(), Runtime: true}
	case string:
		for _, pre := range targetPanicPrefixes {
			if strings.HasPrefix(p, pre) {
				return &TargetPanic{Msg: p, Runtime: true}
			}
		}
		return nil
	}
	return nil
}

// string panics raised by the interpreter on behalf of the target program; any
// other string panic is an engine limitation and is never blamed on the target.
var targetPanicPrefixes = []string{"runtime error", "negative shift amount", "method invoked on nil interface",
	"call of nil function", "interface conversion", "value method", "array length is greater", "comparing uncomparable",
	"unhashable type"}

// InitPackage runs the package initialiser (and, through it, its imports').
func (m *Machine) InitPackage(pkg *ssa.Package) *TargetPanic {
	_, tp := m.Call(pkg.Func("init"))
	return tp
}

// ---------------------------------------------------------------- harness API

// Params are the concrete parameters of the current work unit.
var Params = map[string]string{}

var verifAPI map[string]intrinsic

func strArg(v value) string {
	s, ok := v.(string)
	if !ok {
		panic(engineBug(fmt.Sprintf("harness API needs a concrete string, got %T", v)))
	}
	return s
}

func varName(s string) string {
	var sb strings.Builder
	sb.WriteString("v_")
	for _, c := range s {
		if c >= 'a' && c <= 'z' || c >= 'A' && c <= 'Z' || c >= '0' && c <= '9' || c == '_' {
			sb.WriteRune(c)
		} else {
			fmt.Fprintf(&sb, "_%x_", c)
		}
	}
	return sb.String()
}

func rangeDom(lo, hi uint64, signed bool) func(v *Term) *Term {
	return func(v *Term) *Term {
		le := OpULe
		if signed {
			le = OpSLe
		}
		full := mask(v.W)
		if !signed && lo == 0 && hi == full {
			return nil
		}
		return TAnd(TBin(le, TConst(v.W, lo), v), TBin(le, v, TConst(v.W, hi)))
	}
}

// runeCands lists the runes of the current rune domain inside [lo,hi] when there are few enough of them
// (finite-domain filter, fd.go); nil otherwise.
func runeCands(lo, hi rune) []uint64 {
	clip := func(d [2]rune) (rune, rune) {
		l, h := d[0], d[1]
		if l < lo {
			l = lo
		}
		if h > hi {
			h = hi
		}
		return l, h
	}
	n := 0
	for _, d := range domainRanges() {
		if l, h := clip(d); l <= h {
			n += int(h-l) + 1
		}
	}
	if n == 0 || n > fdMaxCand {
		return nil
	}
	out := make([]uint64, 0, n)
	for _, d := range domainRanges() {
		l, h := clip(d)
		for r := l; r <= h; r++ {
			out = append(out, uint64(uint32(r)))
		}
	}
	return out
}

func intCands(lo, hi int64) []uint64 {
	if hi < lo || hi-lo >= fdMaxCand {
		return nil
	}
	out := make([]uint64, 0, hi-lo+1)
	for v := lo; v <= hi; v++ {
		out = append(out, uint64(v))
	}
	return out
}

func runeDomainTerm(v *Term, lo, hi rune) *Term {
	c := TFalse
	for _, d := range domainRanges() {
		l, h := d[0], d[1]
		if l < lo {
			l = lo
		}
		if h > hi {
			h = hi
		}
		if l > h {
			continue
		}
		c = TOr(c, between(v, uint64(l), uint64(h)))
	}
	return c
}

func init() {
	verifAPI = map[string]intrinsic{
		"verifRune": func(fr *frame, args []value) (value, bool) {
			name := varName(strArg(args[0]))
			lo, hi := rune(0), rune(unicode.MaxRune)
			def := domainRanges()[0][0]
			X.candHint = runeCands(lo, hi)
			v := X.NewVar(name, 32, uint64(def), func(v *Term) *Term { return runeDomainTerm(v, lo, hi) })
			return sym{types.Int32, v}, true
		},
		"verifRuneIn": func(fr *frame, args []value) (value, bool) {
			name := varName(strArg(args[0]))
			lo, hi := args[1].(rune), args[2].(rune)
			if c := intCands(int64(lo), int64(hi)); c != nil {
				for i := range c {
					c[i] &= 0xFFFFFFFF
				}
				X.candHint = c
			}
			v := X.NewVar(name, 32, uint64(lo), rangeDom(uint64(uint32(lo)), uint64(uint32(hi)), true))
			return sym{types.Int32, v}, true
		},
		"verifByte": func(fr *frame, args []value) (value, bool) {
			v := X.NewVar(varName(strArg(args[0])), 8, 0, nil)
			return sym{types.Uint8, v}, true
		},
		"verifByteIn": func(fr *frame, args []value) (value, bool) {
			// a byte drawn from an explicit alphabet (string of allowed bytes)
			al := strArg(args[1])
			v := X.NewVar(varName(strArg(args[0])), 8, uint64(al[0]), func(v *Term) *Term {
				c := TFalse
				for i := 0; i < len(al); i++ {
					c = TOr(c, TEq(v, TConst(8, uint64(al[i]))))
				}
				return c
			})
			return sym{types.Uint8, v}, true
		},
		"verifInt": func(fr *frame, args []value) (value, bool) {
			lo, hi := args[1].(int), args[2].(int)
			if lo == hi {
				return lo, true
			}
			X.candHint = intCands(int64(lo), int64(hi))
			v := X.NewVar(varName(strArg(args[0])), 64, uint64(lo), rangeDom(uint64(lo), uint64(hi), true))
			return sym{types.Int, v}, true
		},
		"verifIntSet": func(fr *frame, args []value) (value, bool) {
			// domain given as "0-34,62-66,100"
			var rs [][2]int64
			for _, part := range strings.Split(strArg(args[1]), ",") {
				var lo, hi int64
				if n, _ := fmt.Sscanf(part, "%d-%d", &lo, &hi); n < 2 {
					fmt.Sscanf(part, "%d", &lo)
					hi = lo
				}
				rs = append(rs, [2]int64{lo, hi})
			}
			if len(rs) == 1 && rs[0][0] == rs[0][1] {
				return int(rs[0][0]), true // a single value: concrete
			}
			var cs []uint64
			for _, r := range rs {
				c := intCands(r[0], r[1])
				if c == nil {
					cs = nil
					break
				}
				cs = append(cs, c...)
			}
			X.candHint = cs
			v := X.NewVar(varName(strArg(args[0])), 64, uint64(rs[0][0]), func(v *Term) *Term {
				c := TFalse
				for _, r := range rs {
					c = TOr(c, TAnd(TBin(OpSLe, TConst(64, uint64(r[0])), v), TBin(OpSLe, v, TConst(64, uint64(r[1])))))
				}
				return c
			})
			return sym{types.Int, v}, true
		},
		"verifCaseSimple": func(fr *frame, args []value) (value, bool) {
			r, ok := args[0].(sym)
			if !ok {
				return caseSimple(args[0].(rune)), true
			}
			registerRunePred("vCaseSimple", caseSimple)
			return mkVal(types.Bool, TApp("vCaseSimple", r.t)), true
		},
		"verifGiveUp": func(fr *frame, args []value) (value, bool) {
			panic(pathAbort{"giveup:" + strArg(args[0])})
		},
		"verifBool": func(fr *frame, args []value) (value, bool) {
			v := X.NewVar(varName(strArg(args[0])), 0, 0, nil)
			return sym{types.Bool, v}, true
		},
		"verifAssume": func(fr *frame, args []value) (value, bool) {
			ok := true
			switch c := args[0].(type) {
			case bool:
				ok = c
			case sym:
				ok = X.decide(c.t, "assume")
			}
			if !ok {
				panic(pathAbort{"assume"})
			}
			return nil, true
		},
		"verifAssert": func(fr *frame, args []value) (value, bool) {
			id := strArg(args[0])
			ok := true
			switch c := args[1].(type) {
			case bool:
				ok = c
			case sym:
				ok = X.decide(c.t, "assert:"+id)
			}
			if !ok {
				X.violation(id, "")
			}
			return nil, true
		},
		"verifFail": func(fr *frame, args []value) (value, bool) {
			X.violation(strArg(args[0]), toString(args[1]))
			return nil, true
		},
		"verifReach": func(fr *frame, args []value) (value, bool) {
			X.Reached[strArg(args[0])]++
			return nil, true
		},
		"verifNote": func(fr *frame, args []value) (value, bool) {
			X.Notes = append(X.Notes, showValue(args[0]))
			return nil, true
		},
		"verifNoteInts": func(fr *frame, args []value) (value, bool) {
			X.Notes = append(X.Notes, strArg(args[0])+"="+showValue(args[1]))
			return nil, true
		},
		"verifParam": func(fr *frame, args []value) (value, bool) {
			return Params[strArg(args[0])], true
		},
		"verifParamInt": func(fr *frame, args []value) (value, bool) {
			n := 0
			fmt.Sscanf(Params[strArg(args[0])], "%d", &n)
			return n, true
		},
		"verifAnd": func(fr *frame, args []value) (value, bool) {
			ta, _ := termOf(args[0])
			tb, _ := termOf(args[1])
			return mkVal(types.Bool, TAnd(ta, tb)), true
		},
		"verifOr": func(fr *frame, args []value) (value, bool) {
			ta, _ := termOf(args[0])
			tb, _ := termOf(args[1])
			return mkVal(types.Bool, TOr(ta, tb)), true
		},
		"verifIteRune": func(fr *frame, args []value) (value, bool) {
			return symIte(args[0], args[1], args[2]), true
		},
		"verifIteInt": func(fr *frame, args []value) (value, bool) {
			return symIte(args[0], args[1], args[2]), true
		},
		"verifConcrete": func(fr *frame, args []value) (value, bool) {
			return int(concreteInt(args[0], "verifConcrete")), true
		},
		"verifConcreteRune": func(fr *frame, args []value) (value, bool) {
			return rune(concreteInt(args[0], "verifConcreteRune")), true
		},
		"verifIsSymbolic": func(fr *frame, args []value) (value, bool) {
			return hasSym(args[0]), true
		},
		"verifIsFalse": func(fr *frame, args []value) (value, bool) {
			b, ok := args[0].(bool)
			return ok && !b, true
		},
		"verifSymbolic": func(fr *frame, args []value) (value, bool) {
			return true, true
		},
		"verifWithStubs": func(fr *frame, args []value) (value, bool) {
			set := strArg(args[0])
			old := activeStubs
			activeStubs = StubSets[set]
			if activeStubs == nil {
				panic(engineBug("unknown stub set " + set))
			}
			defer func() { activeStubs = old }()
			call(fr.i, fr, 0, args[1], nil)
			return nil, true
		},
		"verifConcurrent": func(fr *frame, args []value) (value, bool) {
			// verifConcurrent(maxPreemptions int, raceCheck bool, f func()): f runs as the main
			// goroutine of a coroutine scheduler; returns when all goroutines are done
			if Sched != nil {
				panic(engineBug("nested verifConcurrent"))
			}
			s := newScheduler(args[0].(int), args[1].(bool))
			if v := Params["jitter_ns"]; v != "" {
				fmt.Sscanf(v, "%d", &s.jitter)
			}
			s.voluntaryChoice = Params["sched_voluntary_choice"] != ""
			if v := Params["poll_cost_ns"]; v != "" {
				fmt.Sscanf(v, "%d", &s.pollCost)
			}
			if v := Params["max_clock_advance_ns"]; v != "" {
				fmt.Sscanf(v, "%d", &s.maxAdv)
			}
			Sched = s
			call(fr.i, fr, 0, args[2], nil)
			s.waitAll(false)
			for _, r := range s.races {
				X.Notes = append(X.Notes, r)
			}
			nr := len(s.races)
			s.teardown()
			Sched = nil
			if nr > 0 {
				X.violation("data-race", s.races[0])
			}
			return nil, true
		},
		"verifGo": func(fr *frame, args []value) (value, bool) {
			if Sched == nil {
				panic(engineBug("verifGo outside verifConcurrent"))
			}
			Sched.spawn(fr.i, args[0], nil).joinable = true
			Sched.yieldPoint("go", false)
			return nil, true
		},
		"verifWaitAll": func(fr *frame, args []value) (value, bool) {
			if Sched != nil {
				Sched.waitAll(true)
			}
			return nil, true
		},
		"verifPreempt": func(fr *frame, args []value) (value, bool) {
			// allow n more pre-emptions from here on (0 closes the window)
			if Sched != nil {
				Sched.maxPreempt = Sched.preemptions + args[0].(int)
			}
			return nil, true
		},
		"verifNow": func(fr *frame, args []value) (value, bool) {
			if Sched == nil {
				return int64(0), true
			}
			return mkVal(types.Int64, Sched.now), true
		},
		"verifSummarize": func(fr *frame, args []value) (value, bool) {
			return nil, true
		},
	}
}

// StubSets maps a set name to {function -> stub kind}.
var StubSets = map[string]map[string]string{}

func showValue(v value) string {
	switch x := v.(type) {
	case sym:
		return fmt.Sprintf("%v", constOfKind(x.k, Eval(x.t, X.model))) + "~"
	case symstr:
		b := make([]byte, len(x.b))
		for i, e := range x.b {
			if s, ok := e.(sym); ok {
				b[i] = byte(Eval(s.t, X.model))
			} else {
				b[i] = e.(byte)
			}
		}
		return fmt.Sprintf("%q~", string(b))
	case []value:
		parts := make([]string, len(x))
		for i, e := range x {
			parts[i] = showValue(e)
		}
		return "[" + strings.Join(parts, " ") + "]"
	case string:
		return fmt.Sprintf("%q", x)
	}
	return toString(v)
}

func (x *Explorer) violation(id, msg string) {
	v := Violation{ID: id, Msg: msg, Model: x.modelMap(), Detail: append([]string(nil), x.Notes...)}
	// keep one violation per assertion id and identical notes
	for _, o := range x.Violations {
		if o.ID == id && strings.Join(o.Detail, "|") == strings.Join(v.Detail, "|") {
			panic(pathAbort{"violation"})
		}
	}
	x.Violations = append(x.Violations, v)
	panic(pathAbort{"violation"})
}

// SortedKeys is a helper for deterministic output.
func SortedKeys[V any](m map[string]V) []string {
	ks := make([]string, 0, len(m))
	for k := range m {
		ks = append(ks, k)
	}
	sort.Strings(ks)
	return ks
}

// caseSimple: r is caseless or a member of a plain upper/lower pair.
func caseSimple(r rune) bool {
	f := unicode.SimpleFold(r)
	if f == r {
		return true
	}
	if unicode.SimpleFold(f) != r {
		return false
	}
	lo, up := unicode.ToLower(r), unicode.ToUpper(r)
	return (lo == r && up == f) || (up == r && lo == f)
}
