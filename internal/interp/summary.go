package interp

// Function summaries for pure callees with exactly one symbolic scalar argument
// (DESIGN.md section 2.2): the callee is explored on a fresh variable in a nested
// exploration, its result becomes one term over that variable, and the term is
// instantiated at each call site. The summary is computed from the current SSA
// of the callee, so a change to the callee changes the summary.

import (
	"fmt"
	"os"
	"go/types"
	"strings"

	"golang.org/x/tools/go/ssa"
)

type summaryKey struct {
	fn  *ssa.Function
	key string
}

type summary struct {
	formal *Term
	body   *Term // nil: not summarisable
	kind   types.BasicKind
}

// SummariseFns lists the functions (by ssa String()) that are summarised; harness
// functions whose name starts with verifSum are summarised too.
var SummariseFns = map[string]bool{
	"(github.com/dlclark/regexp2/v2/syntax.CharSet).CharIn":   true,
	"github.com/dlclark/regexp2/v2/syntax.IsWordChar":         true,
	"github.com/dlclark/regexp2/v2/syntax.IsECMAWordChar":     true,
	"github.com/dlclark/regexp2/v2/helpers.IsWordChar":        true,
	"github.com/dlclark/regexp2/v2.charInFixedDistanceSet":    true,
}

// SummariesOff disables summaries (harnesses that check the summarised functions themselves).
var SummariesOff = os.Getenv("GOSYM_NOSUMMARY") != ""

const summaryMaxPaths = 96

var summarisable = map[*ssa.Function]int8{}

func wantSummary(fn *ssa.Function) bool {
	if s, ok := summarisable[fn]; ok {
		return s > 0
	}
	ok := (SummariseFns[fn.String()] && !summariseOff[fn.Name()]) || (strings.HasPrefix(fn.Name(), "verifSum") && fn.Parent() == nil)
	if ok {
		// result must be a single bool or integer
		res := fn.Signature.Results()
		if res.Len() != 1 {
			ok = false
		} else if b, isB := res.At(0).Type().Underlying().(*types.Basic); !isB || b.Info()&(types.IsBoolean|types.IsInteger) == 0 {
			ok = false
		}
	}
	if ok {
		summarisable[fn] = 1
	} else {
		summarisable[fn] = -1
	}
	return ok
}

// deepKey serialises a concrete value; ok=false if it contains anything symbolic
// or unsupported.
func deepKey(sb *strings.Builder, v value, depth int) bool {
	if depth > 6 {
		return false
	}
	switch x := v.(type) {
	case nil:
		sb.WriteString("N")
	case bool, int, int8, int16, int32, int64, uint, uint8, uint16, uint32, uint64, uintptr:
		fmt.Fprintf(sb, "%v,", x)
	case string:
		fmt.Fprintf(sb, "%q,", x)
	case []value:
		fmt.Fprintf(sb, "[%d:", len(x))
		for _, e := range x {
			if !deepKey(sb, e, depth+1) {
				return false
			}
		}
		sb.WriteString("]")
	case structure:
		sb.WriteString("{")
		for _, e := range x {
			if !deepKey(sb, e, depth+1) {
				return false
			}
		}
		sb.WriteString("}")
	case array:
		sb.WriteString("<")
		for _, e := range x {
			if !deepKey(sb, e, depth+1) {
				return false
			}
		}
		sb.WriteString(">")
	case *value:
		if x == nil {
			sb.WriteString("nil,")
		} else {
			sb.WriteString("&")
			if !deepKey(sb, *x, depth+1) {
				return false
			}
		}
	default:
		return false
	}
	return true
}

// trySummary returns the summarised result of fn(args) if applicable.
func trySummary(i *interpreter, caller *frame, fn *ssa.Function, args []value) (value, bool) {
	x := X
	if x == nil || !x.inCheck || SummariesOff || x.inSummary > 0 || Sched != nil {
		return nil, false
	}
	symIdx := -1
	var sb strings.Builder
	for k, a := range args {
		if s, ok := a.(sym); ok {
			if symIdx >= 0 || s.k == types.Bool {
				return nil, false
			}
			symIdx = k
			fmt.Fprintf(&sb, "$%d;", s.k)
			continue
		}
		if !deepKey(&sb, a, 0) {
			return nil, false
		}
		sb.WriteString(";")
	}
	if symIdx < 0 {
		return nil, false
	}
	key := summaryKey{fn, sb.String()}
	s, ok := x.summaries[key]
	if !ok {
		s = computeSummary(i, caller, fn, args, symIdx)
		x.summaries[key] = s
	}
	if s.body == nil {
		return nil, false
	}
	x.Intrinsics["summary:"+fn.Name()]++
	actual := args[symIdx].(sym).t
	return mkVal(s.kind, Subst(s.body, s.formal, actual)), true
}

var summaryN = 0

func computeSummary(i *interpreter, caller *frame, fn *ssa.Function, args []value, symIdx int) *summary {
	outer := X
	as := args[symIdx].(sym)
	summaryN++
	sx := NewExplorer(outer.S)
	sx.inSummary = 1
	sx.PathBudget = summaryMaxPaths
	sx.StepBudget = 200000
	sx.MaxSamples = 0
	X = sx
	w := kindWidth(as.k)
	var formal *Term
	if w == 32 && as.k == types.Int32 {
		sx.candHint = runeCands(0, 0x10FFFF)
		formal = sx.NewVar(fmt.Sprintf("sumarg%d", summaryN), 32, uint64(domainRanges()[0][0]), func(v *Term) *Term { return runeDomainTerm(v, 0, 0x10FFFF) })
	} else {
		formal = sx.NewVar(fmt.Sprintf("sumarg%d", summaryN), w, 0, nil)
	}
	resKind := fn.Signature.Results().At(0).Type().Underlying().(*types.Basic).Kind()
	type pathRes struct {
		cond *Term
		val  *Term
	}
	var results []pathRes
	failed := false
	func() {
		defer func() {
			X = outer
			if r := recover(); r != nil {
				if _, isBug := r.(engineBug); isBug {
					panic(r)
				}
				failed = true
			}
		}()
		sx.trailOn = true
		sx.trailBase = 0
		sx.Explore(func() {
			a2 := append([]value(nil), args...)
			a2[symIdx] = sym{as.k, formal}
			res := callSSA(i, caller, 0, fn, a2, nil)
			rt, _ := termOf(res)
			c := TTrue
			for _, l := range sx.literals() {
				c = TAnd(c, l)
			}
			results = append(results, pathRes{c, rt})
		})
		sx.trailOn = false
		sx.rollbackTo(0)
	}()
	outer.Intrinsics["summary-computed"]++
	if failed || len(sx.Undecided) > 0 || len(sx.Aborted) > 0 || len(results) == 0 {
		outer.Intrinsics["summary-declined"]++
		return &summary{}
	}
	// the last path's value is the default; the paths partition the domain
	body := results[len(results)-1].val
	for k := len(results) - 2; k >= 0; k-- {
		body = TIte(results[k].cond, results[k].val, body)
	}
	return &summary{formal: formal, body: body, kind: resKind}
}

var summariseOff = map[string]bool{}

// SetSummarise switches summaries of the functions named name on or off.
func SetSummarise(name string, on bool) {
	if summariseOff[name] == !on {
		return
	}
	summariseOff[name] = !on
	summarisable = map[*ssa.Function]int8{}
}
