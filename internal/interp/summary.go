package interp

// Function summaries for pure callees with one symbolic scalar argument.

type summaryKey struct {
	fn   string
	recv any
}

type summary struct {
	v    *Term // formal
	body *Term // result as a function of v
	kind int
}
