package interp

// Hash-consed SMT terms (bit-vectors of width 8/16/32/64 and Bool), with
// constant folding, an evaluator (used for concolic guidance and for
// validating models) and an SMT-LIB2 printer. Part of gosym (see
// /verif/DESIGN.md section 2).

import (
	"fmt"
	"math/bits"
	"strings"
)

type Op uint8

const (
	OpVar Op = iota
	OpConst
	OpAdd
	OpSub
	OpMul
	OpUDiv
	OpSDiv
	OpURem
	OpSRem
	OpAnd
	OpOr
	OpXor
	OpNot // bitwise
	OpNeg
	OpShl
	OpLShr
	OpAShr
	OpZExt
	OpSExt
	OpExtract // low bits: result width w, from bit 0
	OpIte
	OpEq
	OpULt
	OpSLt
	OpULe
	OpSLe
	OpBNot
	OpBAnd
	OpBOr
	OpApp // application of a named, defined function (unicode predicates etc.)
)

var opNames = [...]string{
	OpAdd: "bvadd", OpSub: "bvsub", OpMul: "bvmul", OpUDiv: "bvudiv", OpSDiv: "bvsdiv",
	OpURem: "bvurem", OpSRem: "bvsrem", OpAnd: "bvand", OpOr: "bvor", OpXor: "bvxor",
	OpNot: "bvnot", OpNeg: "bvneg", OpShl: "bvshl", OpLShr: "bvlshr", OpAShr: "bvashr",
	OpIte: "ite", OpEq: "=", OpULt: "bvult", OpSLt: "bvslt", OpULe: "bvule", OpSLe: "bvsle",
	OpBNot: "not", OpBAnd: "and", OpBOr: "or",
}

// Term is an immutable hash-consed term. W==0 means Bool.
type Term struct {
	Op      Op
	W       uint8
	A, B, C *Term
	Val     uint64 // constant value (masked to W bits; 0/1 for Bool)
	Name    string // variable or function name
	Args    []*Term
	id      int
	defGen  int // solver generation in which this term was defined
	evEpoch int
	evVal   uint64
	fdState uint8 // finite-domain filter: which listed variable (if exactly one) the term depends on (fd.go)
	fdv     *Term
}

type termKey struct {
	op      Op
	w       uint8
	a, b, c int
	val     uint64
	name    string
}

// AppDef describes a named function usable in OpApp terms.
type AppDef struct {
	Name   string
	ArgW   []uint8
	ResW   uint8
	SMT    string                     // full (define-fun ...) text
	Native func(args []uint64) uint64 // evaluator
}

type termTable struct {
	tab    map[termKey]*Term
	apps   map[string][]*Term // OpApp terms are keyed separately by printed form
	appIdx map[string]*Term
	next   int
	defs   map[string]*AppDef
	vars   []*Term
}

var tt = newTermTable()

func newTermTable() *termTable {
	return &termTable{tab: map[termKey]*Term{}, appIdx: map[string]*Term{}, defs: map[string]*AppDef{}}
}

// ResetTerms drops all terms (definitions of named functions are kept).
func ResetTerms() {
	fdReset()
	defs := tt.defs
	tt = newTermTable()
	tt.defs = defs
	for _, c := range []*Term{TFalse, TTrue} {
		c.id = tt.next
		tt.next++
		c.defGen = 0
		tt.tab[termKey{OpConst, 0, -1, -1, -1, c.Val, ""}] = c
	}
}

func tid(t *Term) int {
	if t == nil {
		return -1
	}
	return t.id
}

func mask(w uint8) uint64 {
	if w == 0 {
		return 1
	}
	if w >= 64 {
		return ^uint64(0)
	}
	return (uint64(1) << w) - 1
}

func mk(op Op, w uint8, a, b, c *Term, val uint64, name string) *Term {
	k := termKey{op, w, tid(a), tid(b), tid(c), val, name}
	if t, ok := tt.tab[k]; ok {
		return t
	}
	t := &Term{Op: op, W: w, A: a, B: b, C: c, Val: val, Name: name, id: tt.next}
	tt.next++
	tt.tab[k] = t
	return t
}

func TConst(w uint8, v uint64) *Term { return mk(OpConst, w, nil, nil, nil, v&mask(w), "") }

var (
	TTrue  = TConst(0, 1)
	TFalse = TConst(0, 0)
)

func TBool(b bool) *Term {
	if b {
		return TTrue
	}
	return TFalse
}

// TVar returns the variable with the given name and width (created once).
func TVar(name string, w uint8) *Term {
	k := termKey{OpVar, w, -1, -1, -1, 0, name}
	if t, ok := tt.tab[k]; ok {
		return t
	}
	t := mk(OpVar, w, nil, nil, nil, 0, name)
	tt.vars = append(tt.vars, t)
	return t
}

func (t *Term) IsConst() bool { return t.Op == OpConst }

func sext64(v uint64, w uint8) int64 {
	if w == 0 || w >= 64 {
		return int64(v)
	}
	sh := 64 - uint(w)
	return int64(v<<sh) >> sh
}

// evalOp computes op on constants.
func evalOp(op Op, w uint8, aw uint8, a, b, c uint64) uint64 {
	m := mask(w)
	switch op {
	case OpAdd:
		return (a + b) & m
	case OpSub:
		return (a - b) & m
	case OpMul:
		return (a * b) & m
	case OpUDiv:
		if b == 0 {
			return m
		}
		return (a / b) & m
	case OpURem:
		if b == 0 {
			return a
		}
		return (a % b) & m
	case OpSDiv:
		sa, sb := sext64(a, w), sext64(b, w)
		if sb == 0 {
			if sa < 0 {
				return 1
			}
			return m
		}
		if sb == -1 {
			return uint64(-sa) & m
		}
		return uint64(sa/sb) & m
	case OpSRem:
		sa, sb := sext64(a, w), sext64(b, w)
		if sb == 0 {
			return a
		}
		if sb == -1 {
			return 0
		}
		return uint64(sa%sb) & m
	case OpAnd:
		return a & b
	case OpOr:
		return a | b
	case OpXor:
		return a ^ b
	case OpNot:
		return ^a & m
	case OpNeg:
		return (-a) & m
	case OpShl:
		if b >= uint64(w) {
			return 0
		}
		return (a << b) & m
	case OpLShr:
		if b >= uint64(w) {
			return 0
		}
		return a >> b
	case OpAShr:
		sa := sext64(a, w)
		if b >= uint64(w) {
			if sa < 0 {
				return m
			}
			return 0
		}
		return uint64(sa>>b) & m
	case OpZExt:
		return a
	case OpSExt:
		return uint64(sext64(a, aw)) & m
	case OpExtract:
		return a & m
	case OpIte:
		if a != 0 {
			return b
		}
		return c
	case OpEq:
		return b2u(a == b)
	case OpULt:
		return b2u(a < b)
	case OpULe:
		return b2u(a <= b)
	case OpSLt:
		return b2u(sext64(a, aw) < sext64(b, aw))
	case OpSLe:
		return b2u(sext64(a, aw) <= sext64(b, aw))
	case OpBNot:
		return a ^ 1
	case OpBAnd:
		return a & b
	case OpBOr:
		return a | b
	}
	panic(fmt.Sprintf("evalOp: %d", op))
}

func b2u(b bool) uint64 {
	if b {
		return 1
	}
	return 0
}

func TUn(op Op, a *Term) *Term {
	w := a.W
	if a.IsConst() {
		return TConst(w, evalOp(op, w, w, a.Val, 0, 0))
	}
	if (op == OpNot || op == OpNeg || op == OpBNot) && a.Op == op {
		return a.A
	}
	return mk(op, w, a, nil, nil, 0, "")
}

func TNot(a *Term) *Term { return TUn(OpBNot, a) }

func TBin(op Op, a, b *Term) *Term {
	if a.W != b.W {
		panic(engineBug(fmt.Sprintf("TBin %s: width mismatch %d vs %d", opNames[op], a.W, b.W)))
	}
	w := a.W
	rw := w
	switch op {
	case OpEq, OpULt, OpSLt, OpULe, OpSLe:
		rw = 0
	}
	if a.IsConst() && b.IsConst() {
		return TConst(rw, evalOp(op, rw, w, a.Val, b.Val, 0))
	}
	// light algebraic simplification
	switch op {
	case OpBAnd:
		if a == TTrue {
			return b
		}
		if b == TTrue {
			return a
		}
		if a == TFalse || b == TFalse {
			return TFalse
		}
		if a == b {
			return a
		}
	case OpBOr:
		if a == TFalse {
			return b
		}
		if b == TFalse {
			return a
		}
		if a == TTrue || b == TTrue {
			return TTrue
		}
		if a == b {
			return a
		}
	case OpEq:
		if a == b {
			return TTrue
		}
		if w == 0 {
			if a == TTrue {
				return b
			}
			if b == TTrue {
				return a
			}
			if a == TFalse {
				return TNot(b)
			}
			if b == TFalse {
				return TNot(a)
			}
		}
		// canonical order: constant on the right
		if a.IsConst() {
			a, b = b, a
		}
		// (zext x) == c  ->  x == c'  when c fits
		if b.IsConst() && a.Op == OpZExt {
			if b.Val&^mask(a.A.W) != 0 {
				return TFalse
			}
			return TBin(OpEq, a.A, TConst(a.A.W, b.Val))
		}
	case OpAdd, OpOr, OpXor:
		if b.IsConst() && b.Val == 0 {
			return a
		}
		if a.IsConst() && a.Val == 0 {
			return b
		}
	case OpSub, OpShl, OpLShr, OpAShr:
		if b.IsConst() && b.Val == 0 {
			return a
		}
	case OpAnd:
		if b.IsConst() && b.Val == mask(w) {
			return a
		}
		if a.IsConst() && a.Val == mask(w) {
			return b
		}
		if (b.IsConst() && b.Val == 0) || (a.IsConst() && a.Val == 0) {
			return TConst(w, 0)
		}
	case OpMul:
		if b.IsConst() && b.Val == 1 {
			return a
		}
		if a.IsConst() && a.Val == 1 {
			return b
		}
	case OpULt:
		if a == b {
			return TFalse
		}
		if b.IsConst() && b.Val == 0 {
			return TFalse
		}
	case OpULe:
		if a == b {
			return TTrue
		}
	case OpSLt:
		if a == b {
			return TFalse
		}
	case OpSLe:
		if a == b {
			return TTrue
		}
	}
	// unsigned/signed comparisons of zero-extended values against constants
	if b.IsConst() && (a.Op == OpZExt) && (op == OpULt || op == OpULe || op == OpSLt || op == OpSLe) {
		iw := a.A.W
		// value of a is in [0, 2^iw); as signed w-bit it is non-negative since iw < w
		var bv int64
		if op == OpSLt || op == OpSLe {
			bv = sext64(b.Val, w)
		} else {
			if b.Val > uint64(1)<<62 {
				bv = int64(1) << 62
			} else {
				bv = int64(b.Val)
			}
		}
		if bv < 0 {
			return TFalse
		}
		max := int64(mask(iw))
		if iw < 63 {
			if op == OpULt || op == OpSLt {
				if bv > max {
					return TTrue
				}
				return TBin(OpULt, a.A, TConst(iw, uint64(bv)))
			}
			if bv >= max {
				return TTrue
			}
			return TBin(OpULe, a.A, TConst(iw, uint64(bv)))
		}
	}
	return mk(op, rw, a, b, nil, 0, "")
}

func TAnd(a, b *Term) *Term { return TBin(OpBAnd, a, b) }
func TOr(a, b *Term) *Term  { return TBin(OpBOr, a, b) }
func TEq(a, b *Term) *Term  { return TBin(OpEq, a, b) }

func TIte(c, a, b *Term) *Term {
	if c == TTrue {
		return a
	}
	if c == TFalse {
		return b
	}
	if a == b {
		return a
	}
	if a.W == 0 {
		if a == TTrue && b == TFalse {
			return c
		}
		if a == TFalse && b == TTrue {
			return TNot(c)
		}
	}
	return mk(OpIte, a.W, c, a, b, 0, "")
}

// TExt converts a to width w (zero- or sign-extending, or truncating).
func TExt(a *Term, w uint8, signed bool) *Term {
	if a.W == w {
		return a
	}
	if a.IsConst() {
		if w < a.W {
			return TConst(w, a.Val)
		}
		if signed {
			return TConst(w, uint64(sext64(a.Val, a.W)))
		}
		return TConst(w, a.Val)
	}
	if w < a.W {
		// extract of an extension of something at least as narrow
		if (a.Op == OpZExt || a.Op == OpSExt) && a.A.W >= w {
			return TExt(a.A, w, false)
		}
		return mk(OpExtract, w, a, nil, nil, 0, "")
	}
	if signed {
		return mk(OpSExt, w, a, nil, nil, 0, "")
	}
	if a.Op == OpZExt {
		return mk(OpZExt, w, a.A, nil, nil, 0, "")
	}
	return mk(OpZExt, w, a, nil, nil, 0, "")
}

// TApp applies a registered function.
func TApp(name string, args ...*Term) *Term {
	d := tt.defs[name]
	if d == nil {
		panic(engineBug("TApp: unknown function " + name))
	}
	allc := true
	var sb strings.Builder
	sb.WriteString(name)
	for _, a := range args {
		fmt.Fprintf(&sb, ",%d", a.id)
		if !a.IsConst() {
			allc = false
		}
	}
	if allc {
		vs := make([]uint64, len(args))
		for i, a := range args {
			vs[i] = a.Val
		}
		return TConst(d.ResW, d.Native(vs))
	}
	k := sb.String()
	if t, ok := tt.appIdx[k]; ok {
		return t
	}
	t := &Term{Op: OpApp, W: d.ResW, Name: name, Args: append([]*Term(nil), args...), id: tt.next}
	tt.next++
	tt.appIdx[k] = t
	return t
}

func RegisterApp(d *AppDef) {
	if _, ok := tt.defs[d.Name]; !ok {
		tt.defs[d.Name] = d
	}
}

// ---------------------------------------------------------------- evaluation

var evEpoch = 1

// Model maps variables to values.
type Model map[*Term]uint64

// Eval evaluates t under m. Variables missing from m evaluate to their default.
func Eval(t *Term, m Model) uint64 {
	evEpoch++
	return eval(t, m)
}

func eval(t *Term, m Model) uint64 {
	switch t.Op {
	case OpConst:
		return t.Val
	case OpVar:
		if v, ok := m[t]; ok {
			return v
		}
		return varDefault(t)
	}
	if t.evEpoch == evEpoch {
		return t.evVal
	}
	var r uint64
	switch t.Op {
	case OpApp:
		vs := make([]uint64, len(t.Args))
		for i, a := range t.Args {
			vs[i] = eval(a, m)
		}
		r = tt.defs[t.Name].Native(vs)
	case OpIte:
		if eval(t.A, m) != 0 {
			r = eval(t.B, m)
		} else {
			r = eval(t.C, m)
		}
	case OpBAnd:
		if eval(t.A, m) == 0 {
			r = 0
		} else {
			r = eval(t.B, m)
		}
	case OpBOr:
		if eval(t.A, m) != 0 {
			r = 1
		} else {
			r = eval(t.B, m)
		}
	default:
		a := eval(t.A, m)
		var b uint64
		if t.B != nil {
			b = eval(t.B, m)
		}
		w := t.W
		if w == 0 && t.Op != OpBNot {
			w = t.A.W // comparison: operand width
			r = evalOp(t.Op, w, w, a, b, 0)
		} else {
			r = evalOp(t.Op, w, t.A.W, a, b, 0)
		}
	}
	t.evEpoch = evEpoch
	t.evVal = r
	return r
}

// ---------------------------------------------------------------- printing

func sortOf(w uint8) string {
	if w == 0 {
		return "Bool"
	}
	return fmt.Sprintf("(_ BitVec %d)", w)
}

func constStr(w uint8, v uint64) string {
	switch w {
	case 0:
		if v != 0 {
			return "true"
		}
		return "false"
	case 8:
		return fmt.Sprintf("#x%02x", v)
	case 16:
		return fmt.Sprintf("#x%04x", v)
	case 32:
		return fmt.Sprintf("#x%08x", v)
	case 64:
		return fmt.Sprintf("#x%016x", v)
	}
	return fmt.Sprintf("(_ bv%d %d)", v, w)
}

// ref returns the name by which t is referred to in solver input.
func (t *Term) ref() string {
	switch t.Op {
	case OpConst:
		return constStr(t.W, t.Val)
	case OpVar:
		return t.Name
	case OpBNot:
		return "(not " + t.A.ref() + ")"
	}
	return fmt.Sprintf("t%d", t.id)
}

// body prints the defining expression of a non-leaf term using refs of children.
func (t *Term) body() string {
	switch t.Op {
	case OpApp:
		var sb strings.Builder
		sb.WriteString("(" + t.Name)
		for _, a := range t.Args {
			sb.WriteString(" " + a.ref())
		}
		sb.WriteString(")")
		return sb.String()
	case OpZExt:
		return fmt.Sprintf("((_ zero_extend %d) %s)", t.W-t.A.W, t.A.ref())
	case OpSExt:
		return fmt.Sprintf("((_ sign_extend %d) %s)", t.W-t.A.W, t.A.ref())
	case OpExtract:
		return fmt.Sprintf("((_ extract %d 0) %s)", t.W-1, t.A.ref())
	case OpIte:
		return fmt.Sprintf("(ite %s %s %s)", t.A.ref(), t.B.ref(), t.C.ref())
	}
	if t.B == nil {
		return fmt.Sprintf("(%s %s)", opNames[t.Op], t.A.ref())
	}
	return fmt.Sprintf("(%s %s %s)", opNames[t.Op], t.A.ref(), t.B.ref())
}

// String prints the full expression tree (for diagnostics and evidence samples).
func (t *Term) String() string {
	var sb strings.Builder
	t.write(&sb, 0)
	return sb.String()
}

func (t *Term) write(sb *strings.Builder, depth int) {
	if depth > 40 {
		sb.WriteString("...")
		return
	}
	switch t.Op {
	case OpConst:
		if t.W == 0 {
			sb.WriteString(constStr(0, t.Val))
		} else {
			fmt.Fprintf(sb, "%d", t.Val)
		}
		return
	case OpVar:
		sb.WriteString(t.Name)
		return
	case OpApp:
		sb.WriteString("(" + t.Name)
		for _, a := range t.Args {
			sb.WriteString(" ")
			a.write(sb, depth+1)
		}
		sb.WriteString(")")
		return
	case OpZExt, OpSExt, OpExtract:
		n := map[Op]string{OpZExt: "zext", OpSExt: "sext", OpExtract: "trunc"}[t.Op]
		fmt.Fprintf(sb, "(%s%d ", n, t.W)
		t.A.write(sb, depth+1)
		sb.WriteString(")")
		return
	}
	sb.WriteString("(" + opNames[t.Op])
	for _, a := range []*Term{t.A, t.B, t.C} {
		if a != nil {
			sb.WriteString(" ")
			a.write(sb, depth+1)
		}
	}
	sb.WriteString(")")
}

// Subst replaces variable v by r in t.
func Subst(t *Term, v, r *Term) *Term {
	memo := map[*Term]*Term{}
	var rec func(t *Term) *Term
	rec = func(t *Term) *Term {
		if t == v {
			return r
		}
		if t.Op == OpConst || t.Op == OpVar {
			return t
		}
		if x, ok := memo[t]; ok {
			return x
		}
		var x *Term
		switch t.Op {
		case OpApp:
			args := make([]*Term, len(t.Args))
			for i, a := range t.Args {
				args[i] = rec(a)
			}
			x = TApp(t.Name, args...)
		case OpIte:
			x = TIte(rec(t.A), rec(t.B), rec(t.C))
		case OpZExt:
			x = TExt(rec(t.A), t.W, false)
		case OpSExt:
			x = TExt(rec(t.A), t.W, true)
		case OpExtract:
			x = TExt(rec(t.A), t.W, false)
		default:
			if t.B == nil {
				x = TUn(t.Op, rec(t.A))
			} else {
				x = TBin(t.Op, rec(t.A), rec(t.B))
			}
		}
		memo[t] = x
		return x
	}
	return rec(t)
}

var _ = bits.Len
