package interp

// Path exploration: depth-first over decision prefixes by re-execution, with
// an undo trail for the interpreter heap and a z3 process behind a pipe.

import (
	"bufio"
	"fmt"
	"io"
	"os"
	"os/exec"
	"sort"
	"strconv"
	"strings"
	"time"
)

// ---------------------------------------------------------------- solver

type Solver struct {
	cmd     *exec.Cmd
	in      io.WriteCloser
	out     *bufio.Reader
	gen     int
	stack   []*Term // asserted literals, one push level each
	levelDefs [][]*Term
	sentDefs  map[string]bool
	globals   []*Term
	reassert  bool
	defsVersion int
	Queries int
	Sat     int
	Unsat   int
	Unknown int
	Errors  int
	Time    time.Duration
	path    string
	logf    *os.File
	timeout int
}

var solverGen = 0

func NewSolver(path string, timeoutMs int) (*Solver, error) {
	s := &Solver{path: path, timeout: timeoutMs}
	if err := s.start(); err != nil {
		return nil, err
	}
	return s, nil
}

func (s *Solver) start() error {
	solverGen++
	s.gen = solverGen
	s.cmd = exec.Command(s.path, "-in")
	in, err := s.cmd.StdinPipe()
	if err != nil {
		return err
	}
	out, err := s.cmd.StdoutPipe()
	if err != nil {
		return err
	}
	s.cmd.Stderr = os.Stderr
	if err := s.cmd.Start(); err != nil {
		return err
	}
	s.in = in
	s.out = bufio.NewReaderSize(out, 1<<16)
	s.stack = nil
	s.levelDefs = nil
	s.sentDefs = map[string]bool{}
	if p := os.Getenv("GOSYM_SMTLOG"); p != "" && s.logf == nil {
		s.logf, _ = os.Create(p)
	}
	s.send(fmt.Sprintf("(set-option :timeout %d)\n", s.timeout))
	for _, name := range sortedDefNames() {
		s.send(tt.defs[name].SMT + "\n")
		s.sentDefs[name] = true
	}
	s.defsVersion = len(tt.defs)
	return nil
}

func sortedDefNames() []string {
	var ns []string
	for n := range tt.defs {
		ns = append(ns, n)
	}
	sort.Strings(ns)
	return ns
}

func (s *Solver) Close() {
	if s.cmd != nil {
		s.in.Close()
		s.cmd.Process.Kill()
		s.cmd.Wait()
		s.cmd = nil
	}
}

// Restart discards all solver state (definitions included).
func (s *Solver) Restart() error {
	s.Close()
	keep := s.globals
	err := s.start()
	s.globals = keep
	s.reassert = len(keep) > 0
	return err
}

// Reset clears the solver state without restarting the process.
func (s *Solver) Reset() {
	solverGen++
	s.gen = solverGen
	s.stack = nil
	s.levelDefs = nil
	s.globals = nil
	s.reassert = false
	s.sentDefs = map[string]bool{}
	s.send("(reset)\n")
	s.send(fmt.Sprintf("(set-option :timeout %d)\n", s.timeout))
	for _, name := range sortedDefNames() {
		s.send(tt.defs[name].SMT + "\n")
		s.sentDefs[name] = true
	}
	s.defsVersion = len(tt.defs)
}

func (s *Solver) send(txt string) {
	if s.logf != nil {
		s.logf.WriteString(txt)
	}
	io.WriteString(s.in, txt)
}

// define makes sure t (and its subterms) are known to the solver by name.
// Definitions are scoped: they are recorded at the current push level and
// forgotten when that level is popped.
func (s *Solver) define(t *Term, sb *strings.Builder) {
	if t == nil || t.Op == OpConst {
		return
	}
	if t.defGen == s.gen {
		return
	}
	if t.Op == OpVar {
		fmt.Fprintf(sb, "(declare-const %s %s)\n", t.Name, sortOf(t.W))
		s.markDefined(t)
		return
	}
	if t.Op == OpApp {
		if d := tt.defs[t.Name]; d != nil && !s.sentDefs[t.Name] {
			// must be global: only happens when a definition is registered late
			panic(engineBug("function " + t.Name + " registered after solver start"))
		}
		for _, a := range t.Args {
			s.define(a, sb)
		}
	} else {
		s.define(t.A, sb)
		s.define(t.B, sb)
		s.define(t.C, sb)
	}
	if t.Op == OpBNot {
		// printed inline by ref(); nothing to define
		s.markDefined(t)
		return
	}
	fmt.Fprintf(sb, "(define-fun %s () %s %s)\n", t.ref(), sortOf(t.W), t.body())
	s.markDefined(t)
}

func (s *Solver) markDefined(t *Term) {
	t.defGen = s.gen
	lv := len(s.stack)
	for len(s.levelDefs) <= lv {
		s.levelDefs = append(s.levelDefs, nil)
	}
	s.levelDefs[lv] = append(s.levelDefs[lv], t)
}

func (s *Solver) popTo(k int, sb *strings.Builder) {
	if n := len(s.stack) - k; n > 0 {
		fmt.Fprintf(sb, "(pop %d)\n", n)
		for lv := k + 1; lv < len(s.levelDefs); lv++ {
			for _, t := range s.levelDefs[lv] {
				t.defGen = 0
			}
			s.levelDefs[lv] = s.levelDefs[lv][:0]
		}
		s.stack = s.stack[:k]
	}
}

// Check decides satisfiability of the conjunction of lits (plus the global
// assertions). It returns "sat", "unsat" or "unknown" and, for sat, a model of
// all declared variables.
func (s *Solver) Check(lits []*Term, global []*Term, wantModel bool) (string, Model) {
	t0 := time.Now()
	defer func() { s.Time += time.Since(t0) }()
	s.Queries++
	var sb strings.Builder
	if s.defsVersion != len(tt.defs) {
		// a function was registered after the solver started: start over, keeping the global assertions
		keep := s.globals
		s.Reset()
		s.globals = keep
		s.reassert = true
	}
	if s.reassert {
		for _, g := range s.globals {
			s.define(g, &sb)
			fmt.Fprintf(&sb, "(assert %s)\n", g.ref())
		}
		s.reassert = false
	}
	// common prefix with what is already asserted
	k := 0
	for k < len(lits) && k < len(s.stack) && s.stack[k] == lits[k] {
		k++
	}
	if len(global) > 0 {
		k = 0
	}
	s.popTo(k, &sb)
	for _, g := range global {
		s.define(g, &sb)
		fmt.Fprintf(&sb, "(assert %s)\n", g.ref())
		s.globals = append(s.globals, g)
	}
	for _, l := range lits[k:] {
		sb.WriteString("(push)\n")
		s.stack = append(s.stack, l)
		s.define(l, &sb)
		fmt.Fprintf(&sb, "(assert %s)\n", l.ref())
	}
	sb.WriteString("(check-sat)\n")
	s.send(sb.String())
	line, err := s.readLine()
	if err != nil {
		s.Errors++
		s.Restart()
		return "unknown", nil
	}
	switch line {
	case "sat":
		s.Sat++
		if !wantModel {
			return "sat", nil
		}
		m, err := s.getModel()
		if err != nil {
			fmt.Fprintf(os.Stderr, "gosym: model: %v\n", err)
			s.Errors++
			s.Restart()
			return "unknown", nil
		}
		return "sat", m
	case "unsat":
		s.Unsat++
		return "unsat", nil
	case "unknown":
		s.Unknown++
		return "unknown", nil
	}
	// (error ...) or anything else: inconclusive; resynchronise by restarting
	fmt.Fprintf(os.Stderr, "gosym: solver said: %s\n", line)
	s.Errors++
	s.Restart()
	return "unknown", nil
}

func (s *Solver) readLine() (string, error) {
	for {
		l, err := s.out.ReadString('\n')
		if err != nil {
			return "", err
		}
		l = strings.TrimSpace(l)
		if l != "" {
			return l, nil
		}
	}
}

func (s *Solver) getModel() (Model, error) {
	m := Model{}
	var vars []*Term
	for _, v := range tt.vars {
		if v.defGen == s.gen {
			vars = append(vars, v)
		}
	}
	if len(vars) == 0 {
		return m, nil
	}
	var sb strings.Builder
	sb.WriteString("(get-value (")
	for _, v := range vars {
		sb.WriteString(v.Name + " ")
	}
	sb.WriteString("))\n")
	s.send(sb.String())
	// read until parentheses balance
	depth := 0
	var txt strings.Builder
	started := false
	for !started || depth > 0 {
		l, err := s.out.ReadString('\n')
		if err != nil {
			return nil, err
		}
		for _, c := range l {
			if c == '(' {
				depth++
				started = true
			} else if c == ')' {
				depth--
			}
		}
		txt.WriteString(l)
	}
	t := txt.String()
	if strings.Contains(t, "(error") {
		return nil, fmt.Errorf("solver error: %s", t)
	}
	byName := map[string]*Term{}
	for _, v := range vars {
		byName[v.Name] = v
	}
	// tokens: ( ( name value ) ( name value ) ... )
	f := strings.Fields(strings.NewReplacer("(", " ", ")", " ").Replace(t))
	for i := 0; i+1 < len(f); i += 2 {
		v := byName[f[i]]
		if v == nil {
			return nil, fmt.Errorf("model: unknown variable %q in %q", f[i], t)
		}
		val := f[i+1]
		var u uint64
		var err error
		switch {
		case val == "true":
			u = 1
		case val == "false":
			u = 0
		case strings.HasPrefix(val, "#x"):
			u, err = strconv.ParseUint(val[2:], 16, 64)
		case strings.HasPrefix(val, "#b"):
			u, err = strconv.ParseUint(val[2:], 2, 64)
		default:
			err = fmt.Errorf("bad value %q", val)
		}
		if err != nil {
			return nil, err
		}
		m[v] = u
	}
	return m, nil
}

// ---------------------------------------------------------------- explorer

type decision struct {
	cond    *Term
	taken   bool
	flipped bool
	site    string
	conc    bool   // created by concretise: cand is the candidate value tried
	cand    uint64
	concOf  *Term
}

type trailEntry struct {
	addr *value
	old  value
	undo func()
}

type pathAbort struct{ why string }

// Violation is a failed verifAssert on a feasible path.
type Violation struct {
	ID     string            `json:"id"`
	Msg    string            `json:"msg"`
	Model  map[string]uint64 `json:"model"`
	Detail []string          `json:"detail,omitempty"`
}

type PathRecord struct {
	Model map[string]uint64 `json:"model"`
	Notes []string          `json:"notes,omitempty"`
	Conds int               `json:"conds"`
}

type Explorer struct {
	S *Solver

	prefix  []decision
	idx     int
	onPath  map[*Term]bool
	model   Model
	global  []*Term // assertions valid on every path (variable domains)
	newGlob []*Term
	defv    map[*Term]uint64

	trailOn bool
	inCheck bool
	trailBase int
	SetupSteps int64
	trail   []trailEntry
	pools   map[*value][]value

	steps      int64
	StepBudget int64
	PathBudget int
	DepthLimit int

	// per-unit results
	Paths      int
	Aborted    map[string]int
	Decisions  int64
	Implied    int64
	Undecided  []string
	Violations []Violation
	Reached    map[string]int
	Notes      []string // notes of the current path
	Samples    []PathRecord
	MaxSamples int
	FnSteps    map[string]int64
	Intrinsics map[string]int64
	TotalSteps int64
	MaxViol    int
	InitialModel map[string]uint64
	initByName   map[string]uint64
	summaries  map[summaryKey]*summary
	inSummary  int
	countFns   bool
	curPathLog []string
	Deadline   time.Time          // exploration stops (unit undecided) when this instant has passed
	candHint   []uint64           // candidate values for the next NewVar (set by the harness API just before)
	feas       map[*Term][]uint64 // finite-domain filter: remaining candidates per listed variable on this path
	FDImplied  int64
	FDSolved   int64 // path conditions decided on the candidate lists alone (no solver query)
	FDConfirmed int64 // verdicts of the filter that were also put to the solver (sampled) and agreed
}

// X is the explorer of this process (one unit at a time).
var X *Explorer

func NewExplorer(s *Solver) *Explorer {
	return &Explorer{S: s, onPath: map[*Term]bool{}, feas: map[*Term][]uint64{}, model: Model{}, defv: map[*Term]uint64{},
		pools: map[*value][]value{}, StepBudget: 3_000_000, PathBudget: 20000, DepthLimit: 4000,
		Aborted: map[string]int{}, Reached: map[string]int{}, MaxSamples: 3,
		FnSteps: map[string]int64{}, Intrinsics: map[string]int64{}, MaxViol: 3,
		summaries: map[summaryKey]*summary{}}
}

func varDefault(t *Term) uint64 {
	if X != nil && X.initByName != nil {
		if v, ok := X.initByName[t.Name]; ok {
			return v
		}
	}
	if X != nil {
		if v, ok := X.defv[t]; ok {
			return v
		}
	}
	return 0
}

// NewVar creates (or returns) a variable with an optional domain constraint.
// dom receives the variable and returns the constraint (may be nil); def is a
// value inside the domain.
func (x *Explorer) NewVar(name string, w uint8, def uint64, dom func(v *Term) *Term) *Term {
	cands := x.candHint
	x.candHint = nil
	k := termKey{OpVar, w, -1, -1, -1, 0, name}
	if t, ok := tt.tab[k]; ok {
		return t
	}
	v := TVar(name, w)
	x.defv[v] = def
	var domTerm *Term
	if dom != nil {
		domTerm = dom(v)
	}
	if cands != nil || w <= 8 {
		if cands == nil {
			// booleans and bytes: the whole type
			for c := uint64(0); c <= mask(w); c++ {
				cands = append(cands, c)
			}
		}
		fdRegister(v, cands, domTerm)
	}
	if dom != nil {
		if c := domTerm; c != nil && c != TTrue {
			x.global = append(x.global, c)
			x.newGlob = append(x.newGlob, c)
			if Eval(c, Model{v: def}) == 0 {
				panic(engineBug("NewVar: default outside domain for " + name))
			}
		}
	}
	return v
}

func (x *Explorer) record(c *Term, v bool) {
	x.onPath[c] = v
}

// decide returns the truth value of cond on the current path, forking if needed.
func (x *Explorer) decide(cond *Term, site string) bool {
	if cond.W != 0 {
		panic(engineBug("decide: non-boolean condition"))
	}
	if cond.IsConst() {
		return cond.Val != 0
	}
	if cond.Op == OpBNot {
		return !x.decide(cond.A, site)
	}
	if v, ok := x.onPath[cond]; ok {
		x.Implied++
		return v
	}
	// finite-domain pre-filter (fd.go): a condition over one listed variable that has the same value for
	// every remaining candidate is implied; like the syntactic test above this comes before the prefix
	fdRes, fdV, fdTruth := x.fdDecide(cond)
	if fdRes >= 0 {
		x.Implied++
		x.FDImplied++
		x.record(cond, fdRes == 1)
		return fdRes == 1
	}
	x.Decisions++
	if x.idx < len(x.prefix) {
		d := &x.prefix[x.idx]
		if d.cond != cond {
			panic(engineBug(fmt.Sprintf("replay divergence at decision %d (%s vs %s): %s vs %s", x.idx, d.site, site, d.cond, cond)))
		}
		x.idx++
		x.record(cond, d.taken)
		if fdV != nil {
			x.fdNarrow(fdV, fdTruth, d.taken)
		}
		return d.taken
	}
	if len(x.prefix) >= x.DepthLimit {
		panic(pathAbort{"depth"})
	}
	v := Eval(cond, x.model) != 0
	x.prefix = append(x.prefix, decision{cond: cond, taken: v, site: site})
	x.idx++
	x.record(cond, v)
	if fdV != nil {
		x.fdNarrow(fdV, fdTruth, v)
	}
	return v
}

// concretise returns a concrete value of t, forking over its feasible values.
func (x *Explorer) concretise(t *Term, what string) uint64 {
	if t.IsConst() {
		return t.Val
	}
	for n := 0; ; n++ {
		if n > 70000 {
			panic(pathAbort{"concretise-limit"})
		}
		var cand uint64
		if x.idx < len(x.prefix) && x.prefix[x.idx].conc && x.prefix[x.idx].concOf == t {
			cand = x.prefix[x.idx].cand
		} else {
			cand = Eval(t, x.model)
		}
		c := TEq(t, TConst(t.W, cand))
		n0 := len(x.prefix)
		r := x.decide(c, what)
		if len(x.prefix) > n0 {
			d := &x.prefix[len(x.prefix)-1]
			d.conc, d.cand, d.concOf = true, cand, t
		}
		if r {
			return cand
		}
	}
}

func (x *Explorer) literals() []*Term {
	ls := make([]*Term, len(x.prefix))
	for i, d := range x.prefix {
		if d.taken {
			ls[i] = d.cond
		} else {
			ls[i] = TNot(d.cond)
		}
	}
	return ls
}

// next prepares the next path; false when exploration is complete.
func (x *Explorer) next() bool {
	for len(x.prefix) > 0 {
		last := len(x.prefix) - 1
		d := &x.prefix[last]
		if d.flipped {
			x.prefix = x.prefix[:last]
			continue
		}
		d.taken = !d.taken
		d.flipped = true
		ls := x.literals()
		var res string
		var m Model
		if sat, fm, ok := x.fdSolve(ls); ok {
			// every literal is a condition over one listed variable: decided on the candidate lists (fd.go)
			x.FDSolved++
			res, m = "unsat", nil
			if sat {
				res, m = "sat", fm
			}
			if fdConfirm() {
				x.FDConfirmed++
				r2, _ := x.S.Check(ls, x.newGlob, false)
				x.newGlob = nil
				if (r2 == "sat" || r2 == "unsat") && r2 != res {
					panic(engineBug(fmt.Sprintf("finite-domain solve says %s, the solver %s", res, r2)))
				}
			}
		} else {
			res, m = x.S.Check(ls, x.newGlob, true)
			x.newGlob = nil
		}
		switch res {
		case "sat":
			x.model = m
			return true
		case "unsat":
		default:
			x.addUndecided("solver-unknown at " + d.site)
		}
		x.prefix = x.prefix[:last]
	}
	return false
}

// tstore writes *addr = v, remembering the old value when the trail is on.
func tstore(addr *value, v value) {
	if Sched != nil {
		logAccess(addr, true, false)
	}
	if X != nil && X.trailOn {
		X.trail = append(X.trail, trailEntry{addr: addr, old: *addr})
	}
	*addr = v
}

func (x *Explorer) trailUndo(f func()) {
	if x.trailOn {
		x.trail = append(x.trail, trailEntry{undo: f})
	}
}

func (x *Explorer) rollback() { x.rollbackTo(x.trailBase) }

func (x *Explorer) rollbackTo(base int) {
	for i := len(x.trail) - 1; i >= base; i-- {
		e := x.trail[i]
		if e.undo != nil {
			e.undo()
		} else {
			*e.addr = e.old
		}
	}
	x.trail = x.trail[:base]
}

// RunUnit runs setup once (its heap effects are undone at the end of the unit)
// and then explores every feasible path of check.
func (x *Explorer) RunUnit(setup func(), check func()) {
	x.trailOn = true
	x.trailBase = 0
	defer func() {
		x.trailOn = false
		x.rollbackTo(0)
	}()
	if setup != nil {
		setup()
	}
	x.trailBase = len(x.trail)
	x.SetupSteps = x.steps
	x.Explore(check)
}

func (x *Explorer) modelMap() map[string]uint64 {
	m := map[string]uint64{}
	for _, v := range tt.vars {
		if strings.HasPrefix(v.Name, "sumarg") {
			continue
		}
		if val, ok := x.model[v]; ok {
			m[v.Name] = val
		} else {
			m[v.Name] = varDefault(v)
		}
	}
	return m
}

// Explore runs check() once per feasible path. check must be re-executable:
// all its heap effects go through the trail.
func (x *Explorer) Explore(check func()) {
	x.prefix = x.prefix[:0]
	x.model = Model{}
	first := true
	if x.InitialModel != nil {
		// deterministic re-execution of one recorded path: variables take the recorded values
		x.initByName = x.InitialModel
	}
	for first || x.next() {
		first = false
		if x.Paths >= x.PathBudget {
			x.addUndecided("path-budget")
			break
		}
		if !x.Deadline.IsZero() && time.Now().After(x.Deadline) {
			// the unit's time budget is used up: what was explored so far is reported, the unit is undecided
			x.addUndecided("time-budget")
			break
		}
		x.idx = 0
		x.onPath = map[*Term]bool{}
		x.feas = map[*Term][]uint64{}
		x.steps = 0
		x.Notes = x.Notes[:0]
		x.inCheck = true
		why := x.runOne(check)
		x.inCheck = false
		x.rollback()
		x.TotalSteps += x.steps
		if why != "" {
			x.Aborted[why]++
			if why == "budget" || why == "depth" || why == "concretise-limit" || strings.HasPrefix(why, "giveup:") {
				x.addUndecided(why)
				if x.Aborted[why] >= 3 {
					x.addUndecided("stopped-after-aborts")
					break
				}
			}
			if why == "violation" && x.Aborted[why] >= 12 {
				x.addUndecided("stopped-after-violations")
				break
			}
		} else {
			x.Paths++
			if len(x.Samples) < x.MaxSamples {
				x.Samples = append(x.Samples, PathRecord{Model: x.modelMap(), Notes: append([]string(nil), x.Notes...), Conds: len(x.prefix)})
			}
		}
		if len(x.Violations) >= x.MaxViol {
			x.addUndecided("stopped-after-violations")
			break
		}
		if os.Getenv("GOSYM_CHECKMODEL") != "" {
			for _, l := range x.literals() {
				if Eval(l, x.model) == 0 {
					panic(engineBug("model does not satisfy path literal " + l.String()))
				}
			}
		}
	}
}

func (x *Explorer) runOne(check func()) (why string) {
	defer func() {
		r := recover()
		if Sched != nil {
			Sched.teardown()
			Sched = nil
		}
		if r != nil {
			switch r := r.(type) {
			case pathAbort:
				why = r.why
			default:
				panic(r)
			}
		}
	}()
	check()
	return ""
}

func (x *Explorer) SetCountFns(b bool) { x.countFns = b }

// ReportPanic records a Go-level panic that escaped the harness.
func (x *Explorer) ReportPanic(msg string, runtimeErr bool) {
	id := "go-panic"
	if !runtimeErr {
		id = "panic"
	}
	x.violation(id, msg)
}

func (x *Explorer) addUndecided(why string) {
	for _, u := range x.Undecided {
		if u == why {
			return
		}
	}
	x.Undecided = append(x.Undecided, why)
}
