package interp

// Goroutines of the target program as coroutines with explicit scheduling
// decisions (used by C11/C14). In sequential mode the synchronisation
// intrinsics are plain operations.

import (
	"golang.org/x/tools/go/ssa"
)

type coroKill struct{}

// Sched is non-nil while a concurrent harness is running.
var Sched *scheduler

type scheduler struct{}

func yield(what string) {
	if Sched != nil {
		schedYield(what)
	}
}

func logAccess(addr *value, write, atomic bool) {
	if Sched != nil {
		schedAccess(addr, write, atomic)
	}
}

func mutexLock(m *value) {
	if Sched != nil {
		schedLock(m)
	}
}

func mutexUnlock(m *value) {
	if Sched != nil {
		schedUnlock(m)
	}
}

func spawnGoroutine(fr *frame, instr *ssa.Go, fn value, args []value) {
	if Sched == nil {
		panic(engineBug("go statement outside a concurrent harness: " + instr.String()))
	}
	schedSpawn(fr, fn, args)
}

func schedYield(what string)                        { panic(engineBug("scheduler not built")) }
func schedAccess(addr *value, write, atomic bool)   {}
func schedLock(m *value)                            { panic(engineBug("scheduler not built")) }
func schedUnlock(m *value)                          { panic(engineBug("scheduler not built")) }
func schedSpawn(fr *frame, fn value, args []value)  { panic(engineBug("scheduler not built")) }
