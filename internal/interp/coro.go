package interp

// Goroutines of the target program as coroutines with explicit scheduling
// decisions (C11, C14). One host goroutine runs at a time (baton passing);
// yield points are the synchronisation operations (sync.Mutex, sync.Pool,
// sync/atomic, time.Sleep, goroutine start and exit). The scheduler's choice at
// a yield point is a solver decision like any other, so the explorer enumerates
// the interleavings up to a pre-emption bound. A vector-clock access log
// reports unordered conflicting accesses (data races) in the explored
// interleavings. Time is virtual: time.Now/Since read a symbolic clock that only
// moves forward, time.Sleep(d) resumes at a symbolic instant in [t+d, t+d+J].

import (
	"fmt"
	"go/types"

	"golang.org/x/tools/go/ssa"
)

type coroKill struct{}

type coroState int

const (
	coRunnable coroState = iota
	coBlocked
	coSleeping
	coDone
)

type coro struct {
	id     int
	resume chan bool
	state  coroState
	waitOn *value // mutex
	wake   *Term  // virtual wake-up instant (64-bit term)
	vc     []int  // vector clock
	panicV any
	joinable bool // started by the harness (verifGo); verifWaitAll waits for these only
}

type accessRec struct {
	wCoro  int
	wClock int
	rClock []int // per coroutine: clock of its last read
}

type scheduler struct {
	coros       []*coro
	cur         *coro
	owner       map[*value]*coro
	lockVC      map[*value][]int
	preemptions int
	maxPreempt  int
	nchoice     int
	mainDone    chan struct{}
	log         map[*value]*accessRec
	races       []string
	raceCheck   bool
	atomicVC    map[*value][]int
	objVC       map[*value][]int // pooled objects: clock of the goroutine that Put them
	// virtual time
	now      *Term
	nclock   int
	jitter   uint64 // J in ns
	maxAdv   uint64 // largest single advance of the clock at a yield point
	pollCost int64  // virtual nanoseconds that pass at every deadline poll of a matcher ((*Runner).CheckTimeout); 0 = none
	deadlock bool
	killed   bool
	// voluntaryChoice: also branch on who runs next when the current coroutine gives up the
	// processor itself (off by default: the number of schedules explodes)
	voluntaryChoice bool
}

// Sched is non-nil while a concurrent harness is running.
var Sched *scheduler

func newScheduler(maxPreempt int, raceCheck bool) *scheduler {
	s := &scheduler{owner: map[*value]*coro{}, lockVC: map[*value][]int{}, maxPreempt: maxPreempt,
		log: map[*value]*accessRec{}, raceCheck: raceCheck, atomicVC: map[*value][]int{}, objVC: map[*value][]int{},
		now: TConst(64, 0), jitter: 1_000_000, maxAdv: 0}
	main := &coro{id: 0, resume: make(chan bool), vc: []int{1}}
	s.coros = []*coro{main}
	s.cur = main
	return s
}

func (s *scheduler) runnable() []*coro {
	var rs []*coro
	for _, c := range s.coros {
		if c.state == coRunnable {
			rs = append(rs, c)
		}
	}
	return rs
}

func vcJoin(a, b []int) []int {
	for len(a) < len(b) {
		a = append(a, 0)
	}
	for i, v := range b {
		if v > a[i] {
			a[i] = v
		}
	}
	return a
}

func vcCopy(a []int) []int { return append([]int(nil), a...) }

func (c *coro) tick() {
	for len(c.vc) <= c.id {
		c.vc = append(c.vc, 0)
	}
	c.vc[c.id]++
}

// wakeSleepers makes every sleeper whose wake time has been reached runnable.
func (s *scheduler) wakeSleepers() {
	for _, c := range s.coros {
		if c.state == coSleeping {
			if X.decide(TBin(OpULe, c.wake, s.now), "wake") {
				c.state = coRunnable
			}
		}
	}
}

// advanceToSleeper moves the clock to the wake time of some sleeper (needed when nobody is runnable).
func (s *scheduler) advanceToSleeper() bool {
	var first *coro
	for _, c := range s.coros {
		if c.state != coSleeping {
			continue
		}
		if first == nil || X.decide(TBin(OpULt, c.wake, first.wake), "earliest") {
			first = c
		}
	}
	if first == nil {
		return false
	}
	s.now = first.wake
	s.wakeSleepers()
	return true
}

// pick chooses the next coroutine to run at a yield point.
func (s *scheduler) pick(mustSwitch bool) *coro {
	s.wakeSleepers()
	rs := s.runnable()
	for len(rs) == 0 {
		if !s.advanceToSleeper() {
			return nil
		}
		rs = s.runnable()
	}
	cur := s.cur
	curRunnable := cur.state == coRunnable
	// mustSwitch: cur gave up the processor itself (blocked, slept, exited); running
	// somebody else then is not a pre-emption, and cur may continue if it is runnable again
	if curRunnable && !mustSwitch && (s.preemptions >= s.maxPreempt || len(rs) == 1) {
		return cur
	}
	var cands []*coro
	if curRunnable {
		cands = append(cands, cur)
	}
	for _, c := range rs {
		if c != cur {
			cands = append(cands, c)
		}
	}
	if len(cands) == 0 {
		return nil
	}
	chosen := cands[len(cands)-1]
	if mustSwitch && !s.voluntaryChoice {
		// voluntary switch (block, sleep, exit): deterministic hand-over to the next coroutine in
		// creation order after cur; only pre-emptive switches are explored as choices
		chosen = cands[0]
		for _, c := range cands {
			if c.id > cur.id {
				chosen = c
				break
			}
		}
		if curRunnable {
			chosen = cur
		}
	} else if mustSwitch || s.preemptions < s.maxPreempt {
		for _, c := range cands[:len(cands)-1] {
			s.nchoice++
			v := X.NewVar(fmt.Sprintf("sched%d", s.nchoice), 0, 1, nil)
			if X.decide(v, "sched") {
				chosen = c
				break
			}
		}
	} else {
		chosen = cands[0]
	}
	if curRunnable && !mustSwitch && chosen != cur {
		s.preemptions++
	}
	return chosen
}

// switchTo hands the baton to next and blocks the caller until it is resumed.
func (s *scheduler) switchTo(next *coro) {
	cur := s.cur
	if next == cur {
		return
	}
	s.cur = next
	next.resume <- true
	if ok := <-cur.resume; !ok {
		panic(coroKill{})
	}
	if s.killed {
		if cur.id != 0 {
			panic(coroKill{})
		}
		s.propagate()
		panic(pathAbort{"killed"})
	}
}

func (s *scheduler) yieldPoint(what string, mustSwitch bool) {
	if s.killed {
		panic(coroKill{})
	}
	next := s.pick(mustSwitch)
	if next == nil {
		if mustSwitch {
			s.deadlock = true
			X.violation("deadlock", "all goroutines are blocked at "+what)
		}
		return
	}
	X.Intrinsics["yield:"+what]++
	s.switchTo(next)
}

func yield(what string) {
	if Sched != nil {
		Sched.yieldPoint(what, false)
	}
}

func schedYield(what string) { yield(what) }

func mutexLock(m *value) {
	s := Sched
	if s == nil || s.killed {
		return
	}
	s.yieldPoint("Lock", false)
	for s.owner[m] != nil {
		s.cur.state = coBlocked
		s.cur.waitOn = m
		s.yieldPoint("Lock-blocked", true)
	}
	s.owner[m] = s.cur
	s.cur.vc = vcJoin(s.cur.vc, s.lockVC[m])
}

func mutexUnlock(m *value) {
	s := Sched
	if s == nil || s.killed {
		return
	}
	if s.owner[m] != s.cur {
		X.violation("unlock-of-unlocked-mutex", "")
	}
	s.lockVC[m] = vcCopy(s.cur.vc)
	s.cur.tick()
	delete(s.owner, m)
	for _, c := range s.coros {
		if c.state == coBlocked && c.waitOn == m {
			c.state = coRunnable
			c.waitOn = nil
		}
	}
	s.yieldPoint("Unlock", false)
}

// spawnGoroutine implements the go statement.
func spawnGoroutine(fr *frame, instr *ssa.Go, fn value, args []value) {
	s := Sched
	if s == nil {
		panic(engineBug("go statement outside a concurrent harness: " + instr.String()))
	}
	s.spawn(fr.i, fn, args)
	s.yieldPoint("go", false)
}

func (s *scheduler) spawn(i *interpreter, fn value, args []value) *coro {
	c := &coro{id: len(s.coros), resume: make(chan bool), vc: vcCopy(s.cur.vc)}
	s.cur.tick()
	s.coros = append(s.coros, c)
	c.tick()
	go func() {
		if ok := <-c.resume; !ok {
			return
		}
		defer func() {
			r := recover()
			c.state = coDone
			if _, isKill := r.(coroKill); isKill {
				return // torn down at the end of a path
			}
			main := s.coros[0]
			if r != nil {
				// a panic ended this goroutine: re-raise it in the main coroutine
				c.panicV = r
				s.killed = true
				s.cur = main
				main.resume <- true
				return
			}
			c.tick()
			var next *coro
			func() {
				defer func() {
					if r2 := recover(); r2 != nil {
						c.panicV = r2
						s.killed = true
						next = main
					}
				}()
				next = s.pick(true)
			}()
			if next == nil {
				next = main
			}
			s.cur = next
			next.resume <- true
		}()
		call(i, nil, 0, fn, args)
	}()
	return c
}

// waitAll blocks the main coroutine until every other coroutine (onlyJoinable: every
// coroutine started by the harness) has finished.
func (s *scheduler) waitAll(onlyJoinable bool) {
	for {
		if s.killed {
			s.propagate()
		}
		alive := false
		for _, c := range s.coros[1:] {
			if c.state != coDone && (c.joinable || !onlyJoinable) {
				alive = true
			}
		}
		if !alive {
			break
		}
		s.cur.state = coBlocked
		next := s.pick(true)
		s.cur.state = coRunnable
		if next == nil || next == s.cur {
			s.deadlock = true
			X.violation("deadlock", "main waits for goroutines that are all blocked")
		}
		s.switchTo(next)
		if s.killed {
			s.propagate()
		}
	}
	for _, c := range s.coros[1:] {
		if c.state == coDone {
			s.cur.vc = vcJoin(s.cur.vc, c.vc)
		}
	}
}

// propagate re-raises in the main coroutine a panic that ended another coroutine.
func (s *scheduler) propagate() {
	for _, c := range s.coros[1:] {
		if c.panicV != nil {
			p := c.panicV
			c.panicV = nil
			panic(p)
		}
	}
}

// teardown kills coroutines that are still parked (end of a path).
func (s *scheduler) teardown() {
	s.killed = true
	for _, c := range s.coros[1:] {
		if c.state != coDone {
			c.state = coDone
			c.resume <- false // parked coroutines are all waiting on their resume channel
		}
	}
}

// ---------------------------------------------------------------- access log (race detection)

func logAccess(addr *value, write, atomic bool) {
	s := Sched
	if s == nil || !s.raceCheck || addr == nil || s.killed {
		return
	}
	c := s.cur
	if atomic {
		if write {
			s.atomicVC[addr] = vcJoin(vcCopy(c.vc), s.atomicVC[addr])
			c.tick()
		} else {
			c.vc = vcJoin(c.vc, s.atomicVC[addr])
		}
		return
	}
	rec := s.log[addr]
	if rec == nil {
		rec = &accessRec{wCoro: -1}
		s.log[addr] = rec
	}
	hb := func(co, clk int) bool { // did access (co, clk) happen before the current point of c?
		if co == c.id || co < 0 {
			return true
		}
		return co < len(c.vc) && c.vc[co] >= clk
	}
	if !hb(rec.wCoro, rec.wClock) {
		s.races = append(s.races, fmt.Sprintf("unordered write by goroutine %d and %s by goroutine %d", rec.wCoro, map[bool]string{true: "write", false: "read"}[write], c.id))
	}
	if write {
		for co, clk := range rec.rClock {
			if clk > 0 && !hb(co, clk) {
				s.races = append(s.races, fmt.Sprintf("unordered read by goroutine %d and write by goroutine %d", co, c.id))
			}
		}
		rec.wCoro, rec.wClock = c.id, c.vc[c.id]
		rec.rClock = nil
	} else {
		for len(rec.rClock) <= c.id {
			rec.rClock = append(rec.rClock, 0)
		}
		rec.rClock[c.id] = c.vc[c.id]
	}
}

// poolTransfer records the happens-before edge Put -> Get of a pooled object.
func poolPut(obj value) {
	s := Sched
	if s == nil {
		return
	}
	if p, ok := obj.(iface); ok {
		if ptr, ok := p.v.(*value); ok {
			s.objVC[ptr] = vcCopy(s.cur.vc)
		}
	}
	s.cur.tick()
}

func poolGet(obj value) {
	s := Sched
	if s == nil {
		return
	}
	if p, ok := obj.(iface); ok {
		if ptr, ok := p.v.(*value); ok {
			s.cur.vc = vcJoin(s.cur.vc, s.objVC[ptr])
		}
	}
}

// ---------------------------------------------------------------- virtual time

func (s *scheduler) advance(d *Term, withJitter bool) *Term {
	t := TBin(OpAdd, s.now, d)
	if withJitter && s.jitter > 0 {
		s.nclock++
		j := X.NewVar(fmt.Sprintf("jit%d", s.nclock), 64, 0, rangeDom(0, s.jitter, false))
		t = TBin(OpAdd, t, j)
	}
	return t
}

// timeSleep implements time.Sleep(d) for the current coroutine.
func timeSleep(d value) {
	s := Sched
	if s == nil || s.killed {
		return
	}
	dt, _ := termOf(d)
	c := s.cur
	c.wake = s.advance(dt, true)
	c.state = coSleeping
	if c.id == 0 {
		// the main coroutine sleeping = the harness lets time pass
		s.yieldPoint("Sleep", true)
		return
	}
	s.yieldPoint("Sleep", true)
}

// clockNow returns the current virtual instant; at a reading the clock may have
// moved on by a symbolic amount (bounded by maxAdv) since the last reading.
func clockNow() *Term {
	s := Sched
	if s == nil {
		return TConst(64, 0)
	}
	if s.maxAdv > 0 {
		s.nclock++
		a := X.NewVar(fmt.Sprintf("adv%d", s.nclock), 64, 0, rangeDom(0, s.maxAdv, false))
		s.now = TBin(OpAdd, s.now, a)
	}
	return s.now
}

var _ = types.Bool
