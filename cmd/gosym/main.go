// gosym: bounded symbolic execution of dlclark/regexp2 from go/ssa (see /verif/DESIGN.md).
package main

import (
	"fmt"
	"os"
)

func main() {
	// go/packages looks up "go" on the PATH of this process; the repo needs go >= 1.25
	os.Setenv("PATH", goRoot+"/bin:"+os.Getenv("PATH"))
	os.Setenv("GOFLAGS", "-mod=mod")
	os.Setenv("GOPROXY", "off")
	os.Setenv("GOSUMDB", "off")
	os.Setenv("GOTOOLCHAIN", "local")
	if len(os.Args) < 2 {
		fmt.Fprintln(os.Stderr, "usage: gosym worker | check <property> [quick|thorough] | replay <file> | units <property> <tier>")
		os.Exit(2)
	}
	switch os.Args[1] {
	case "worker":
		workerMain()
	case "check":
		os.Exit(checkMain(os.Args[2:]))
	case "units":
		if len(os.Args) < 4 || props[os.Args[2]] == nil {
			fmt.Fprintln(os.Stderr, "usage: gosym units <property> <tier>")
			os.Exit(2)
		}
		us := props[os.Args[2]].Build(os.Args[3], 0)
		if len(os.Args) > 4 {
			for _, u := range us {
				fmt.Println(u.ID)
			}
		}
		fmt.Printf("%s %s: %d units\n", os.Args[2], os.Args[3], len(us))
	case "replay":
		os.Exit(replayMain(os.Args[2:]))
	default:
		fmt.Fprintln(os.Stderr, "unknown subcommand", os.Args[1])
		os.Exit(2)
	}
}
