package main

import (
	"bufio"
	"encoding/json"
	"fmt"
	"os"
	"runtime/debug"
	"strconv"
	"strings"
	"time"

	"verif/internal/interp"
)

// Unit is one work unit: a harness (setup + check function) with concrete parameters.
type Unit struct {
	ID      string            `json:"id"`
	Pkg     string            `json:"pkg"` // "", "syntax", "compat"
	Harness string            `json:"harness"`
	Params  map[string]string `json:"params"`
	// budgets (0 = default)
	PathBudget int   `json:"path_budget,omitempty"`
	StepBudget int64 `json:"step_budget,omitempty"`
	Domain     string `json:"domain,omitempty"` // "quick" or "full"
	CountFns   bool   `json:"count_fns,omitempty"`
	// TimeBudgetS: the worker stops exploring this unit after so many seconds and reports what it has (the
	// unit is then undecided); the driver's hard limit, which kills the worker and loses the unit, is longer
	TimeBudgetS int `json:"time_budget_s,omitempty"`
	// ReplayModel: re-execute exactly one path, the one selected by these variable values
	ReplayModel map[string]uint64 `json:"replay_model,omitempty"`
}

type UnitResult struct {
	Unit       Unit                 `json:"unit"`
	Paths      int                  `json:"paths"`
	Aborted    map[string]int       `json:"aborted,omitempty"`
	Decisions  int64                `json:"decisions"`
	Implied    int64                `json:"implied"`
	FDImplied  int64                `json:"fd_implied"`
	FDSolved   int64                `json:"fd_solved"`
	FDConfirmed int64               `json:"fd_confirmed"`
	Queries    int                  `json:"queries"`
	Sat        int                  `json:"sat"`
	Unsat      int                  `json:"unsat"`
	Unknown    int                  `json:"unknown"`
	SolverErr  int                  `json:"solver_errors"`
	SolverS    float64              `json:"solver_s"`
	WallS      float64              `json:"wall_s"`
	Steps      int64                `json:"steps"`
	SetupSteps int64                `json:"setup_steps"`
	Undecided  []string             `json:"undecided,omitempty"`
	Violations []interp.Violation   `json:"violations,omitempty"`
	Reached    map[string]int       `json:"reached,omitempty"`
	Samples    []interp.PathRecord  `json:"samples,omitempty"`
	FnSteps    map[string]int64     `json:"fn_steps,omitempty"`
	Intrinsics map[string]int64     `json:"intrinsics,omitempty"`
	Skipped    string               `json:"skipped,omitempty"` // setup declined the unit (e.g. pattern does not compile)
	Broken     string               `json:"broken,omitempty"`  // engine problem: nothing is claimed for this unit
}

func pkgPath(sub string) string {
	if sub == "" {
		return modPath
	}
	return modPath + "/" + sub
}

func workerMain() {
	p, err := loadProgram()
	if err != nil {
		fmt.Fprintf(os.Stderr, "gosym worker: %v\n", err)
		os.Exit(2)
	}
	solverPath := envOr("GOSYM_SOLVER", "z3-new")
	timeoutMs, _ := strconv.Atoi(envOr("GOSYM_SOLVER_TIMEOUT_MS", "20000"))
	installStubSets()
	// package initialisation, once
	interp.X = interp.NewExplorer(nil)
	for _, path := range []string{modPath, modPath + "/compat", "regexp"} {
		if tp := p.m.InitPackage(p.pkgs[path]); tp != nil {
			fmt.Fprintf(os.Stderr, "gosym worker: init of %s panicked: %s\n", path, tp.Msg)
			os.Exit(2)
		}
	}
	var solver *interp.Solver
	in := bufio.NewReaderSize(os.Stdin, 1<<20)
	out := json.NewEncoder(os.Stdout)
	curDomain := ""
	for {
		line, err := in.ReadString('\n')
		if strings.TrimSpace(line) != "" {
			var u Unit
			if jerr := json.Unmarshal([]byte(line), &u); jerr != nil {
				fmt.Fprintf(os.Stderr, "gosym worker: bad unit: %v\n", jerr)
				os.Exit(2)
			}
			if u.Domain == "" {
				u.Domain = "quick"
			}
			if u.Domain != curDomain {
				// the rune domain is baked into the generated Unicode functions
				interp.SetRuneDomain(u.Domain)
				curDomain = u.Domain
				if solver != nil {
					solver.Close()
					solver = nil
				}
			}
			if solver == nil {
				solver, err = interp.NewSolver(solverPath, timeoutMs)
				if err != nil {
					fmt.Fprintf(os.Stderr, "gosym worker: solver: %v\n", err)
					os.Exit(2)
				}
			}
			res := runUnit(p, solver, u)
			out.Encode(res)
		}
		if err != nil {
			break
		}
	}
	if solver != nil {
		solver.Close()
	}
}

func runUnit(p *program, solver *interp.Solver, u Unit) (res UnitResult) {
	res.Unit = u
	t0 := time.Now()
	interp.ResetTerms()
	solver.Reset()
	q0, s0, u0, k0, e0, st0 := solver.Queries, solver.Sat, solver.Unsat, solver.Unknown, solver.Errors, solver.Time
	x := interp.NewExplorer(solver)
	interp.X = x
	if u.PathBudget > 0 {
		x.PathBudget = u.PathBudget
	}
	if u.StepBudget > 0 {
		x.StepBudget = u.StepBudget
	}
	if u.TimeBudgetS > 0 {
		x.Deadline = time.Now().Add(time.Duration(u.TimeBudgetS) * time.Second)
	}
	x.SetCountFns(u.CountFns)
	if u.ReplayModel != nil {
		x.InitialModel = u.ReplayModel
		x.PathBudget = 1
	}
	interp.Params = u.Params
	interp.SetSummarise("CharIn", u.Params["nosummary_charin"] == "")
	setup := p.fn(pkgPath(u.Pkg), "VerifSetup_"+u.Harness)
	check := p.fn(pkgPath(u.Pkg), "VerifCheck_"+u.Harness)
	if check == nil {
		res.Broken = "no harness function VerifCheck_" + u.Harness
		return
	}
	defer func() {
		if r := recover(); r != nil {
			res.Broken = fmt.Sprintf("%v", r)
			if os.Getenv("GOSYM_TRACE") != "" {
				res.Broken += "\n" + string(debug.Stack())
			}
		}
		res.Paths = x.Paths
		res.Aborted = x.Aborted
		res.Decisions = x.Decisions
		res.Implied = x.Implied
		res.FDImplied, res.FDSolved, res.FDConfirmed = x.FDImplied, x.FDSolved, x.FDConfirmed
		res.Queries = solver.Queries - q0
		res.Sat = solver.Sat - s0
		res.Unsat = solver.Unsat - u0
		res.Unknown = solver.Unknown - k0
		res.SolverErr = solver.Errors - e0
		res.SolverS = (solver.Time - st0).Seconds()
		res.WallS = time.Since(t0).Seconds()
		res.Steps = x.TotalSteps
		res.SetupSteps = x.SetupSteps
		res.Undecided = x.Undecided
		res.Violations = x.Violations
		res.Reached = x.Reached
		res.Samples = x.Samples
		res.Intrinsics = x.Intrinsics
		if u.CountFns {
			res.FnSteps = x.FnSteps
		}
		if res.Unknown > 0 || res.SolverErr > 0 {
			res.Undecided = append(res.Undecided, "solver-inconclusive")
		}
	}()
	var skip string
	x.RunUnit(func() {
		if setup != nil {
			if _, tp := p.m.Call(setup); tp != nil {
				skip = "setup: " + tp.Msg
			}
		}
	}, func() {
		if skip != "" {
			return
		}
		if _, tp := p.m.Call(check); tp != nil {
			// a Go-level panic of the target that the harness did not expect
			x.ReportPanic(tp.Msg, tp.Runtime)
		}
	})
	if skip != "" {
		res.Skipped = skip
	}
	return
}
