package main

import (
	"fmt"
	"go/types"
	"os"
	"path/filepath"
	"strings"

	"golang.org/x/tools/go/packages"
	"golang.org/x/tools/go/ssa"
	"golang.org/x/tools/go/ssa/ssautil"

	"verif/internal/interp"
)

const modPath = "github.com/dlclark/regexp2/v2"

var repoDir = envOr("VERIF_REPO", "/repo")
var verifDir = envOr("VERIF_DIR", "/verif")

// outDir receives evidence/ and replays/; GOSYM_OUT redirects them when a check is run against a
// scratch tree (seeded changes), so that the committed evidence is only ever written from /repo itself.
var outDir = envOr("GOSYM_OUT", verifDir)

func envOr(k, d string) string {
	if v := os.Getenv(k); v != "" {
		return v
	}
	return d
}

// harnessOverlay maps virtual file names inside the repo to harness sources.
// Files in harness/<pkg>/ go to the matching package directory; api.go.tmpl is
// instantiated once per package.
func harnessOverlay() (map[string][]byte, error) {
	ov := map[string][]byte{}
	tmpl, err := os.ReadFile(filepath.Join(verifDir, "harness", "api.go.tmpl"))
	if err != nil {
		return nil, err
	}
	for _, p := range []struct{ dir, sub, name string }{
		{"regexp2", "", "regexp2"}, {"syntax", "syntax", "syntax"}, {"compat", "compat", "compat"},
	} {
		files, _ := filepath.Glob(filepath.Join(verifDir, "harness", p.dir, "*.go"))
		if len(files) == 0 {
			continue
		}
		for _, f := range files {
			b, err := os.ReadFile(f)
			if err != nil {
				return nil, err
			}
			ov[filepath.Join(repoDir, p.sub, "zz_verif_"+filepath.Base(f))] = b
		}
		ov[filepath.Join(repoDir, p.sub, "zz_verif_api.go")] = []byte(strings.Replace(string(tmpl), "PKGNAME", p.name, 1))
	}
	return ov, nil
}

type program struct {
	prog *ssa.Program
	pkgs map[string]*ssa.Package
	m    *interp.Machine
}

func loadProgram() (*program, error) {
	ov, err := harnessOverlay()
	if err != nil {
		return nil, err
	}
	cfg := &packages.Config{
		Mode:    packages.LoadAllSyntax,
		Dir:     repoDir,
		Overlay: ov,
		Env:     goEnv(),
	}
	pkgs, err := packages.Load(cfg, modPath, modPath+"/syntax", modPath+"/helpers", modPath+"/compat", "regexp")
	if err != nil {
		return nil, err
	}
	nerr := 0
	packages.Visit(pkgs, nil, func(p *packages.Package) {
		for _, e := range p.Errors {
			fmt.Fprintf(os.Stderr, "load: %v\n", e)
			nerr++
		}
	})
	if nerr > 0 {
		return nil, fmt.Errorf("%d load errors", nerr)
	}
	prog, spkgs := ssautil.AllPackages(pkgs, ssa.InstantiateGenerics)
	prog.Build()
	p := &program{prog: prog, pkgs: map[string]*ssa.Package{}}
	for i, sp := range spkgs {
		if sp == nil {
			return nil, fmt.Errorf("no SSA package for %s", pkgs[i].PkgPath)
		}
		p.pkgs[pkgs[i].PkgPath] = sp
	}
	p.m = interp.NewMachine(prog, &types.StdSizes{WordSize: 8, MaxAlign: 8})
	return p, nil
}

func (p *program) fn(pkg, name string) *ssa.Function {
	sp := p.pkgs[pkg]
	if sp == nil {
		return nil
	}
	return sp.Func(name)
}

const goRoot = "/opt/veriftools/go1.26.8"

// goEnv is the environment for running the go tool (the repo needs go >= 1.25;
// the default go on PATH is older).
func goEnv() []string {
	env := []string{}
	for _, e := range os.Environ() {
		if strings.HasPrefix(e, "PATH=") || strings.HasPrefix(e, "GOFLAGS=") || strings.HasPrefix(e, "GOTOOLCHAIN=") || strings.HasPrefix(e, "GOROOT=") {
			continue
		}
		env = append(env, e)
	}
	return append(env, "PATH="+goRoot+"/bin:"+os.Getenv("PATH"), "GOFLAGS=-mod=mod", "GOPROXY=off", "GOSUMDB=off", "GOTOOLCHAIN=local")
}
