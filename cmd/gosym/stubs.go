package main

import "verif/internal/interp"

const syn = "github.com/dlclark/regexp2/v2/syntax"

// installStubSets registers the interception sets of DESIGN.md section 3.
func installStubSets() {
	n := "(*" + syn + ".RegexNode)."
	interp.StubSets["norewrite"] = map[string]string{
		n + "findAndMakeLoopsAtomic":            "noop",
		n + "eliminateEndingBacktracking":       "noop",
		n + "finalOptimize":                     "identity",
		n + "extractCommonPrefixText":           "identity",
		n + "extractCommonPrefixOneNotoneSet":   "identity",
		n + "findBranchOneOrMultiStart":         "nil",
	}
	interp.StubSets["none"] = map[string]string{}
}
