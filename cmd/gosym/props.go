package main

import (
	"fmt"
	"os"
	"sort"
	"strconv"
	"strings"

	"verif/patterns"
)

// ---------------------------------------------------------------- pattern sets

type patSet struct {
	pats []patterns.Pat
}

func dedup(ps []patterns.Pat) []patterns.Pat {
	seen := map[string]bool{}
	var out []patterns.Pat
	for _, p := range ps {
		if !seen[p.Text] {
			seen[p.Text] = true
			out = append(out, p)
		}
	}
	return out
}

func enumPats(tier string, seed int) []patterns.Pat {
	if tier == "thorough" {
		return patterns.Enum(4, 6, seed, false)
	}
	return patterns.Enum(3, 1, seed, false)
}

func itoa(i int) string { return strconv.Itoa(i) }

func isSystematic(p patterns.Pat) bool {
	return p.Source == "shape:loopsucc" || p.Source == "shape:altprefix" || p.Source == "shape:succloop"
}

// mirrorPats: the head x predecessor x loop product (thinned in quick), used in full by the right-to-left
// configurations and thinned further by the left-to-right ones.
func mirrorPats(tier string, seed int, rtl bool) []patterns.Pat {
	keep := 4
	if !rtl {
		keep = 8
	}
	if tier == "thorough" {
		keep /= 4
	}
	return patterns.SuccLoop(keep, seed)
}

// systematicPats: the loop x successor x tail and alternation-prefix products (thinned in quick).
func systematicPats(tier string, seed int) []patterns.Pat {
	keep := 4
	if tier == "thorough" {
		keep = 1
	}
	return append(patterns.LoopSucc(keep, seed), patterns.AltPrefix(keep, seed)...)
}

func unitsFor(prop, harness string, p patterns.Pat, options int, copts string, maxN int, extra map[string]string, needAST bool) []Unit {
	text := p.Text
	var ast *patterns.Node
	ng := 0
	if needAST {
		var err error
		if options&patterns.OptX != 0 {
			a0, _, err0 := patterns.Parse(text, options&^patterns.OptX)
			if err0 != nil {
				return nil
			}
			text = a0.Print(true)
		}
		ast, ng, err = patterns.Parse(text, options)
		if err != nil {
			return nil
		}
	}
	var us []Unit
	for n := 0; n <= maxN; n++ {
		params := map[string]string{"pattern": text, "options": itoa(options), "copts": copts, "n": itoa(n)}
		if ast != nil {
			params["ast"] = ast.Sexpr()
			params["ngroups"] = itoa(ng)
			anyi := 0
			ast.Walk(func(m *patterns.Node) {
				if m.F&patterns.FI != 0 {
					anyi = 1
				}
			})
			params["anyi"] = itoa(anyi)
		}
		for k, v := range extra {
			params[k] = v
		}
		us = append(us, Unit{ID: fmt.Sprintf("%s/%s/o%d%s/n%d", prop, text, options, copts, n), Harness: harness, Params: params})
	}
	return us
}

// limitShapes: patterns that sit on either side of a constant of the compile-time analyses (prefix length 8,
// 16 prefixes / set characters, loop expansion 20, 50 fixed-distance results), each with the text lengths at
// which a match is possible. The texts are long but the patterns are rigid, so the number of path classes
// stays small (it grows with the square of the length, not exponentially).
var limitShapes = []struct {
	pat string
	ns  []int // text lengths (the first one is the quick tier's)
	dir string // "l": left-to-right configurations only, "r": right-to-left only (a rigid pattern is cheap only
	// when the scan direction meets its loop first: the failed attempt at p then decides most of p+1)
	quick bool
}{
	{`[ab]{20}c`, []int{21, 22}, "l", true}, {`[ab]{21}c`, []int{23, 22}, "l", true}, {`[ab]{22}cd`, []int{24, 25}, "l", false}, {`\d{21}-`, []int{22, 23}, "l", true}, {`a{21}[bc]d`, []int{23, 24}, "l", true},
	{`[ab]{19,21}c`, []int{22}, "l", false}, {`[ab]{7}c`, []int{8, 9}, "l", false}, {`[ab]{8}c`, []int{9, 10}, "l", true}, {`[ab]{9}c`, []int{10, 11}, "l", true},
	{`c[ab]{20}`, []int{21, 22}, "r", false}, {`c[ab]{21}`, []int{23, 22}, "r", true}, {`dc[ab]{22}`, []int{24, 25}, "r", false}, {`-\d{21}`, []int{22, 23}, "r", true}, {`c[ab]{8}`, []int{9, 10}, "r", false},
	{`abcdefg[ij]`, []int{8, 9}, "lr", false}, {`abcdefgh[ij]`, []int{9, 10}, "l", true}, {`abcdefghi[jk]`, []int{10, 11}, "l", true},
	{`abcdefgh|abcdefgx`, []int{8, 9}, "l", false}, {`[a-p]{2}x`, []int{3, 4}, "lr", true}, {`[a-q]{2}x`, []int{3, 4}, "lr", true}, {`[a-p]x|[a-q]y`, []int{2, 3}, "lr", true},
	{`ab|cd|ef|gh|ij|kl|mn|op|qr|st|uv|wx|yz|AB|CD|EF`, []int{2, 3}, "l", true}, {`ab|cd|ef|gh|ij|kl|mn|op|qr|st|uv|wx|yz|AB|CD|EF|GH`, []int{2, 3}, "l", true},
	{`[ab]{49}c`, []int{50}, "l", false}, {`[ab]{50}c`, []int{51}, "l", false}, {`.{20}[ab]c`, []int{22}, "l", false}, {`.{21}[ab]c`, []int{23}, "l", true}, {`\w{21}\b-`, []int{22, 23}, "l", false},
}

func limitUnits(tier, prop, harness string, cfgs []struct {
	o  int
	co string
}, needAST bool) []Unit {
	var us []Unit
	for _, ls := range limitShapes {
		if tier != "thorough" && !ls.quick {
			continue
		}
		for _, cfg := range cfgs {
			d := "l"
			if cfg.o&patterns.OptRTL != 0 {
				d = "r"
			}
			if !strings.Contains(ls.dir, d) {
				continue
			}
			all := unitsFor(prop, harness, patterns.FromText(ls.pat, 0, "shape:limits"), cfg.o, cfg.co, 60, map[string]string{"fixstart": "1"}, needAST)
			for k, n := range ls.ns {
				if k > 0 && tier != "thorough" {
					break
				}
				if n < len(all) {
					u := all[n]
					u.PathBudget = 60000
					u.StepBudget = 40_000_000
					us = append(us, u)
				}
			}
		}
	}
	return us
}

func sortedPats(ps []patterns.Pat) []patterns.Pat {
	sort.SliceStable(ps, func(i, j int) bool { return ps[i].Text < ps[j].Text })
	return ps
}

// ---------------------------------------------------------------- C01 / C15

func inC01Fragment(p patterns.Pat, options int) bool {
	a, _, err := patterns.Parse(p.Text, options&^patterns.OptX)
	if err != nil {
		return false
	}
	if !a.InFragmentC01() {
		return false
	}
	ok := true
	a.Walk(func(n *patterns.Node) {
		// \b under RE2 is documented as ASCII in Go's regexp but kept Unicode here (C06 finding): not part of C01
		if options&patterns.OptRE2 != 0 && (n.K == patterns.WordB || n.K == patterns.NWordB) {
			ok = false
		}
	})
	return ok
}

var c01OptionSets = []int{0, patterns.OptI, patterns.OptM, patterns.OptS, patterns.OptN, patterns.OptX, patterns.OptRE2, patterns.OptI | patterns.OptM | patterns.OptS}

func buildSpecUnits(prop string, rtl bool) func(tier string, seed int) []Unit {
	return func(tier string, seed int) []Unit {
		ps := dedup(append(append(append(patterns.ShapePats(), systematicPats(tier, seed)...), mirrorPats(tier, seed, rtl)...), enumPats(tier, seed)...))
		maxN := 4
		if tier == "thorough" {
			maxN = 5
		}
		var us []Unit
		for i, p := range ps {
			var sets []int
			if tier == "thorough" {
				sets = c01OptionSets
			} else {
				sets = []int{0, c01OptionSets[1+(i+seed)%(len(c01OptionSets)-1)]}
			}
			mn := maxN
			if isSystematic(p) && tier != "thorough" {
				// the systematic products are large: plain options and one rune less in the quick tier
				sets = []int{0}
				mn = maxN - 1
				if p.Source == "shape:altprefix" && !rtl {
					// two branches with a common head of two items: a wrong factoring needs the head,
					// one extra repetition and the tail = four runes to show
					mn = maxN
				}
			}
			for _, o := range sets {
				if rtl {
					if o&(patterns.OptN|patterns.OptX|patterns.OptRE2) != 0 {
						continue
					}
					o |= patterns.OptRTL
				}
				if !inC01Fragment(p, o) {
					continue
				}
				us = append(us, unitsFor(prop, "spec", p, o, "", mn, nil, true)...)
			}
		}
		// five runes for the shapes that need them: a leading capture with a loop that is referenced later
		// (a a b a b), literal pieces that only become adjacent during tree reduction (right-to-left merge order)
		for _, t := range []string{`(a*b)\1`, `(\w*b)\1`, `(?<x>a*b)c\k<x>`, `(a+b)\1`, `(?:ab)cde`, `ab\.cd`, `(?:ab)(?:cd)e`, `a(?:bc)de`, `(?:abc)de`, `ab(?:c)de`} {
			o := 0
			if rtl {
				o = patterns.OptRTL
			}
			p := patterns.FromText(t, 0, "shape:deep5")
			if !inC01Fragment(p, o) {
				continue
			}
			all := unitsFor(prop, "spec", p, o, "", maxN+2, nil, true)
			for _, u := range all {
				if n, _ := strconv.Atoi(u.Params["n"]); n > maxN {
					u.Params["fixstart"] = "1"
					us = append(us, u)
				}
			}
		}
		return us
	}
}

func init() {
	register(&propSpec{
		ID:    "C01",
		Build: buildSpecUnits("C01", false),
		Rule: "For each enumerated (pattern, option set, text length n): the text is n symbolic runes and the start offset a symbolic int; every feasible path of " +
			"FindRunesMatchStartingAt + the reference matcher is explored and snapshot equality (index, length, every group's capture list) is asserted on each.",
		Witnesses:   []string{"match", "nomatch", "end"},
		Assumptions: []string{"reference semantics = /verif/harness/regexp2/spec.go (DESIGN.md App. B/E); under IgnoreCase text runes are restricted to caseless runes and plain upper/lower pairs"},
		Bounds: func(tier string) map[string]any {
			if tier == "thorough" {
				return map[string]any{"text_runes_max": 5, "rune_domain": "U+0000-U+10FFFF", "option_sets": 8, "patterns": "shape library + Enum(size<=4, 6 per signature)"}
			}
			return map[string]any{"text_runes_max": 4, "rune_domain": "D_q", "option_sets": "2 per pattern of 8", "patterns": "shape library + Enum(size<=3, 1 per signature)"}
		},
	})
	register(&propSpec{
		ID:    "C15",
		Build: buildSpecUnits("C15", true),
		Rule: "As C01 with RightToLeft compiled in and the reference matcher run with its direction flag: for each (pattern, options, n) all feasible paths over n symbolic runes and a symbolic start offset.",
		Witnesses:   []string{"match", "nomatch", "end"},
		Assumptions: []string{"reference semantics = /verif/harness/regexp2/spec.go with dir=-1"},
	})
	register(&propSpec{
		ID: "C03",
		Build: func(tier string, seed int) []Unit {
			ps := dedup(append(append(append(patterns.ShapePats(), systematicPats(tier, seed)...), mirrorPats(tier, seed, true)...), enumPats(tier, seed)...))
			maxN := 5
			if tier == "thorough" {
				maxN = 6
			}
			var us []Unit
			for i, p := range ps {
				for _, cfg := range []struct {
					o  int
					co string
				}{{0, ""}, {0, "g"}, {patterns.OptRTL, ""}, {patterns.OptI, ""}} {
					if p.Source == "shape:succloop" && tier != "thorough" {
						// the mirrored product: always right-to-left, every second one also left-to-right
						if !(cfg.o == patterns.OptRTL || cfg.o == 0 && cfg.co == "" && (i+seed)%2 == 0) {
							continue
						}
					} else if tier != "thorough" && cfg.o != 0 && ((i+seed)%4 != 0 || isSystematic(p)) {
						continue
					}
					if tier != "thorough" && cfg.co != "" && isSystematic(p) && (i+seed)%6 != 0 {
						continue
					}
					if tier != "thorough" && cfg.co != "" && (i+seed)%3 != 0 {
						continue
					}
					mn := maxN
					if p.Source == "enum" || isSystematic(p) {
						mn = maxN - 1 // generated patterns are at most 3-4 atoms wide; the shape library gets the extra rune
					} else if tier != "thorough" && !strings.HasPrefix(p.Source, "shape:findmode") && p.Source != "shape:landmark" && p.Source != "shape:bumpalong" &&
						p.Source != "shape:prefix" && p.Source != "shape:lookaround-lead" && p.Source != "shape:autoatomic" {
						mn = maxN - 1 // the extra rune only for the mechanisms whose literals / landmarks need the room
					}
					us = append(us, unitsFor("C03", "accel", p, cfg.o, cfg.co, mn, nil, false)...)
				}
			}
			us = append(us, limitUnits(tier, "C03", "accel", []struct {
				o  int
				co string
			}{{0, ""}, {0, "g"}, {patterns.OptRTL, ""}}, false)...)
			return us
		},
		Rule:      "For each (pattern, options, code-gen flag, n): n symbolic runes, symbolic start offset; every feasible path of the real find call and of a naive scan of the same compiled program (no candidate finder, no prefix filter, no length cut-off, bump by one) is explored and their snapshots are asserted equal.",
		Witnesses: []string{"match", "nomatch", "match-after-skip", "end"},
	})
}

// ---------------------------------------------------------------- C05, C07, C13, C18, C20

func optLetters(o int) string {
	s := ""
	for _, x := range []struct {
		bit int
		c   string
	}{{patterns.OptI, "i"}, {patterns.OptM, "m"}, {patterns.OptS, "s"}, {patterns.OptN, "n"}, {patterns.OptX, "x"}} {
		if o&x.bit != 0 {
			s += x.c
		}
	}
	return s
}

var inlineSubsets = func() []int {
	var out []int
	bits := []int{patterns.OptI, patterns.OptM, patterns.OptS, patterns.OptN, patterns.OptX}
	for m := 0; m < 32; m++ {
		o := 0
		for i, b := range bits {
			if m&(1<<i) != 0 {
				o |= b
			}
		}
		out = append(out, o)
	}
	return out
}()

func flipCase(r rune) rune {
	switch {
	case r >= 'a' && r <= 'z':
		return r - 32
	case r >= 'A' && r <= 'Z':
		return r + 32
	case r >= 0x3b1 && r <= 0x3c9 && r != 0x3c2: // Greek small (not final sigma)
		return r - 32
	case r >= 0x391 && r <= 0x3a9 && r != 0x3a2:
		return r + 32
	case r >= 0x430 && r <= 0x44f: // Cyrillic
		return r - 32
	case r >= 0x410 && r <= 0x42f:
		return r + 32
	case r >= 0xe0 && r <= 0xfe && r != 0xf7: // Latin-1
		return r - 32
	case r >= 0xc0 && r <= 0xde && r != 0xd7:
		return r + 32
	}
	return r
}

// flippedVariants returns pattern texts with the case of up to two literal
// letters / range end-points flipped (printed from the AST).
func flippedVariants(text string, options int, max int) (base string, variants []string) {
	a, _, err := patterns.Parse(text, options)
	if err != nil {
		return "", nil
	}
	base = a.Print(false)
	// collect flippable sites
	type site struct {
		n    *patterns.Node
		item int // -1: literal; else index of range item; end 0/1 encoded in hi
		hi   bool
	}
	var sites []site
	a.Walk(func(n *patterns.Node) {
		if n.K == patterns.Lit && flipCase(n.Ch) != n.Ch {
			sites = append(sites, site{n, -1, false})
		}
		if n.K == patterns.Class {
			for i, it := range n.Items {
				if it.Cat == "" && it.Lo == it.Hi && flipCase(it.Lo) != it.Lo {
					sites = append(sites, site{n, i, false})
				}
			}
		}
	})
	apply := func(s site) {
		if s.item < 0 {
			s.n.Ch = flipCase(s.n.Ch)
		} else {
			c := flipCase(s.n.Items[s.item].Lo)
			s.n.Items[s.item].Lo, s.n.Items[s.item].Hi = c, c
		}
	}
	seen := map[string]bool{base: true}
	for i := range sites {
		apply(sites[i])
		if t := a.Print(false); !seen[t] {
			seen[t] = true
			variants = append(variants, t)
		}
		for j := i + 1; j < len(sites) && len(variants) < max; j++ {
			apply(sites[j])
			if t := a.Print(false); !seen[t] {
				seen[t] = true
				variants = append(variants, t)
			}
			apply(sites[j])
		}
		apply(sites[i])
		if len(variants) >= max {
			break
		}
	}
	return base, variants
}

func init() {
	register(&propSpec{
		ID: "C05",
		Build: func(tier string, seed int) []Unit {
			ps := dedup(append(append(append(patterns.ShapesOf("autoatomic", "endbacktrack", "alternation", "coalesce", "bumpalong", "opcodes", "landmark", "case"), systematicPats(tier, seed)...), mirrorPats(tier, seed, true)...), enumPats(tier, seed)...))
			maxN := 4
			sets := []int{0, patterns.OptI, patterns.OptM, patterns.OptS, patterns.OptRE2, patterns.OptRTL}
			if tier == "thorough" {
				maxN = 5
			}
			var us []Unit
			for i, p := range ps {
				for k, o := range sets {
					if p.Source == "shape:succloop" && tier != "thorough" {
						if !(o == patterns.OptRTL || k == 0 && (i+seed)%2 == 0) {
							continue
						}
					} else if tier != "thorough" && k != 0 && (k != 1+(i+seed)%5 || isSystematic(p)) {
						continue
					}
					us = append(us, unitsFor("C05", "rewrite", p, o, "", maxN, nil, false)...)
				}
			}
			// a leading capture whose body starts with a loop, referenced later: whether the scan may skip the
			// start positions inside the loop's run shows only when the attempt at the start of the run fails on
			// the reference and one inside the run succeeds (five runes: a a b a b)
			for _, t := range []string{`(a*b)\1`, `(\w*b)\1`, `(a*b)c\1`, `(a+b)\1`, `(?<x>a*b)\k<x>`, `(a*)b\1`, `(?:(a*b))\1`, `(a*b)(?(1)\1|c)`, `(a*?b)\1`, `(?>(a*b))\1`, `(a*b)+\1`} {
				for _, o := range []int{0, patterns.OptRTL} {
					all := unitsFor("C05", "rewrite", patterns.FromText(t, 0, "shape:captureloop"), o, "", maxN+1, nil, false)
					us = append(us, all[len(all)-1])
				}
			}
			return us
		},
		Rule:      "For each (pattern, options, n): the pattern is compiled twice inside the interpreter, once as is and once with the rewrite passes (auto-atomic loops, ending-backtracking removal, final optimisation incl. bump-along, alternation prefix factoring and branch reordering) intercepted; n symbolic runes and a symbolic start offset; every feasible path of a scan of both programs is explored and the snapshots asserted equal. Units whose two programs are identical are counted as trivial.",
		Witnesses: []string{"programs-differ", "match", "nomatch", "end"},
		Assumptions: []string{"interception set norewrite = {findAndMakeLoopsAtomic, eliminateEndingBacktracking -> no-op; finalOptimize, extractCommonPrefixText, extractCommonPrefixOneNotoneSet -> identity; findBranchOneOrMultiStart -> nil}; other reductions are covered by C01, not here"},
	})
	register(&propSpec{
		ID: "C07",
		Build: func(tier string, seed int) []Unit {
			ps := dedup(append(patterns.ShapesOf("zerowidth", "anchors", "opcodes", "bumpalong", "classes", "balancing"), enumPats(tier, seed)...))
			maxN := 4
			if tier == "thorough" {
				maxN = 5
			}
			var us []Unit
			for i, p := range ps {
				us = append(us, unitsFor("C07", "iter", p, 0, "", maxN, nil, false)...)
				if tier == "thorough" || (i+seed)%2 == 0 {
					us = append(us, unitsFor("C07", "iter", p, patterns.OptRTL, "", maxN, nil, false)...)
				}
			}
			// the adapter's own iteration (compat package): its find-all methods against the FindNextMatch
			// sequence of the wrapped Regexp, nullable patterns on subjects that mix 1- and 2-byte runes
			for _, t := range []string{`a*`, `é*`, `(b|)`, `\b`, `a*?`, `(?:)`, `[^a]*`, `a|`, `(a)?`, `^|$`} {
				for _, n := range []int{2, 3, 4, 5} {
					if n == 5 && tier != "thorough" {
						continue
					}
					us = append(us, Unit{ID: fmt.Sprintf("C07/adapter/%s/r%d", t, n), Pkg: "compat", Harness: "compatentry", Domain: "full",
						Params: map[string]string{"pattern": t, "options": "0", "copts": "", "n": itoa(n), "mode": "r", "runealphabet": "aéb", "key_extra": "adapter/r"}})
				}
			}
			return us
		},
		Rule:      "For each (pattern, direction, n): n symbolic runes; FindRunesMatch + FindNextMatch are iterated to exhaustion on every feasible path; order, disjointness, no repeated empty match, at most n+1 matches, equality of each match with an independent naive scan from the previous end (\\G origin = that end), and FindAllRunesIndex(t,k) for k in -1..3 against the filtered sequence are asserted.",
		Witnesses: []string{"some-match", "several-matches", "end"},
	})
	register(&propSpec{
		ID: "C13",
		Build: func(tier string, seed int) []Unit {
			ps := dedup(append(patterns.ShapesOf("stacklimit", "opcodes", "alternation"), patterns.ShapesOf("zerowidth")...))
			maxN, lmax := 2, 72
			ldom, l2dom := "0-34,62-66,100", "1-40,63-70,128,100000"
			if tier == "thorough" {
				maxN, lmax = 3, 140
				ldom, l2dom = "0-140,1000", "1-150,2000,100000"
				ps = dedup(append(ps, enumPats("quick", seed)...))
			}
			var us []Unit
			for _, p := range ps {
				us = append(us, unitsFor("C13", "limit", p, 0, "", maxN, map[string]string{"lmax": itoa(lmax), "ldom": ldom, "l2dom": l2dom}, false)...)
			}
			// runs of single-character loops, left-to-right, right-to-left and inside look-behind: each loop
			// pushes backtracking state, so these need texts as long as the run (n <= 4) to reach the reserve
			for _, p := range patterns.ShapesOf("stackdeep") {
				for _, o := range []int{0, patterns.OptRTL} {
					for n := 3; n <= 4; n++ {
						if tier != "thorough" && n == 3 {
							continue
						}
						params := map[string]string{"pattern": p.Text, "options": itoa(o), "copts": "", "n": itoa(n), "lmax": "40", "ldom": "0-40", "l2dom": "1-44,100000", "key_extra": "deep", "textdom": "a-e"}
						us = append(us, Unit{ID: fmt.Sprintf("C13/deep/%s/o%d/n%d", p.Text, o, n), Harness: "limit", PathBudget: 60000, Params: params})
					}
				}
			}
			// a bool-only call before the capturing one, patterns with many capture groups nobody refers to
			for _, g := range []struct{ pat, pad string }{{`(a)(b)(c)(d)(e)(f)`, "abcd"}, {`(\w)(\w)(\w)(\w)(\w)(\w)(\w)(\w)`, "abcdef"}, {`(?:(a)|(b)|(c))*d`, "abcabc"},
				{`(\w)(\w)(\w)(\w)(\w)(\w)(\w)(\w)(\w)(\w)(\w)(\w)(\w)(\w)(\w)(\w)(\w)(\w)(\w)(\w)(\w)(\w)(\w)(\w)`, "abcdefghijklmnopqrstuv"}} {
				for _, o := range []int{0, patterns.OptRTL} {
					pad := g.pad
					if o != 0 {
						pad = ""
					}
					params := map[string]string{"pattern": g.pat, "options": itoa(o), "copts": "", "n": "2", "lmax": "100000", "ldom": "8,16,17,32,64,100,100000", "l2dom": "129,100001",
						"key_extra": "boolfirst", "textdom": "a-e", "pad": pad, "lconcrete": "1", "boolfirst": "1"}
					us = append(us, Unit{ID: fmt.Sprintf("C13/boolfirst/%s/o%d", g.pat, o), Harness: "limit", PathBudget: 60000, StepBudget: 40_000_000, Params: params})
				}
			}
			// growth of the stack past its initial size: a concrete run of 10 / 20 runes in front of two symbolic
			// ones, the limit anywhere between the initial size and several doublings (so that the last growth
			// step is clipped to the limit on some paths and is a clean doubling on others)
			for _, g := range []struct{ pat, pad string }{{`(?:ab?)*d|\w+`, "aaaaaaaaaa"}, {`(a)*b|(a)*c`, "aaaaaaaaaaaaaaaaaaaa"}, {`^(?:(\w)*\d|.*c)$`, "aaaaaaaaaa"}, {`(a|b)*c`, "ababababab"},
				{`(?:a|b|c|d)*e`, "abcdabcdabcdabcd"}, {`((a)|(b))*c`, "abababab"}, {`(?:a*a*)*b`, "aaaaaa"}, {`(?<=(\w)*\d|a*)c`, "aaaaaaaaaa"}} {
				for _, o := range []int{0, patterns.OptRTL} {
					if o != 0 && tier != "thorough" && len(g.pad) > 10 {
						continue
					}
					pad := g.pad
					params := map[string]string{"pattern": g.pat, "options": itoa(o), "copts": "", "n": "2", "lmax": "1100", "ldom": "63-66,100,127-129,200,256,1000", "l2dom": "101,130,100000",
						"key_extra": "grow", "textdom": "a-e", "pad": pad, "lconcrete": "1"}
					us = append(us, Unit{ID: fmt.Sprintf("C13/grow/%s/o%d", g.pat, o), Harness: "limit", PathBudget: 60000, StepBudget: 40_000_000, Params: params})
				}
			}
			return us
		},
		Rule:      "For each (pattern, n): n symbolic runes and the limit L (and a second L2 > L) as 64-bit solver variables in [0, lmax]; all feasible paths: result with limit L is ErrBacktrackingStackLimit or equals the unlimited result; pooled stack capacity <= L; no Go panic; the Regexp gives the reference result afterwards; success at L implies the same success at L2.",
		Witnesses: []string{"limit-hit", "within-limit", "end"},
		Bounds: func(tier string) map[string]any {
			if tier == "thorough" {
				return map[string]any{"text_runes_max": 4, "L": "[0,140]"}
			}
			return map[string]any{"text_runes_max": 3, "L": "[0,72]"}
		},
	})
	register(&propSpec{
		ID: "C18",
		Build: func(tier string, seed int) []Unit {
			ps := dedup(append(patterns.ShapesOf("anchors", "classes", "case", "groups", "opcodes", "alternation"), enumPats(tier, seed)...))
			maxN := 3
			per := 3
			if tier == "thorough" {
				maxN, per = 4, 32
			}
			var us []Unit
			for i, p := range ps {
				a0, _, err := patterns.Parse(p.Text, 0)
				if err != nil {
					continue
				}
				for k := 0; k < per; k++ {
					o := inlineSubsets[(i*7+k*11+seed)%32]
					if per == 32 {
						o = inlineSubsets[k]
					}
					if o == 0 {
						continue
					}
					body := p.Text
					if o&patterns.OptX != 0 {
						body = a0.Print(true)
					}
					ast, ng, err := patterns.Parse(body, o)
					if err != nil || !ast.InFragmentC01() {
						continue
					}
					letters := optLetters(o)
					extra := map[string]string{"pattern_inline": "(?" + letters + ")" + body, "pattern_wrap": "(?" + letters + ":" + body + ")", "options_rest": "0",
						"ast": ast.Sexpr(), "ngroups": itoa(ng)}
					// the "off" forms: all five options as compile options with the complement switched off inline,
					// and the combined on/off group (?O-C) on a pattern compiled without options
					all := patterns.OptI | patterns.OptM | patterns.OptS | patterns.OptN | patterns.OptX
					if compl := optLetters(all &^ o); compl != "" {
						extra["pattern_off"] = "(?-" + compl + ")" + body
						extra["options_all"] = itoa(all)
						extra["pattern_onoff"] = "(?" + letters + "-" + compl + ":" + body + ")"
					}
					anyi := "0"
					if o&patterns.OptI != 0 {
						anyi = "1"
					}
					extra["anyi"] = anyi
					for n := 0; n <= maxN; n++ {
						params := map[string]string{"pattern": body, "options": itoa(o), "copts": "", "n": itoa(n)}
						for kk, v := range extra {
							params[kk] = v
						}
						us = append(us, Unit{ID: fmt.Sprintf("C18/%s/o%d/n%d", body, o, n), Harness: "spell", Params: params})
					}
				}
			}
			// RE2 / Python-style named groups and references inside option groups
			for _, t := range []string{`(?P<n>a)(?i:(?P=n))b`, `(?P<n>a)(?-i:(?P=n))b`, `(?P<n>a)((?s)(?P=n).).`, `(?i:(?P<n>a))(?P=n)b`, `(?P<n>a)(?i)(?P=n)(?-i)b`} {
				for _, o := range []int{patterns.OptRE2, patterns.OptRE2 | patterns.OptI} {
					ast, ng, err := patterns.Parse(t, o)
					if err != nil {
						continue
					}
					for n := 0; n <= maxN+1; n++ {
						us = append(us, Unit{ID: fmt.Sprintf("C18/%s/re2/o%d/n%d", t, o, n), Harness: "spell", Params: map[string]string{"pattern": t, "pattern_inline": t, "pattern_wrap": t,
							"options": itoa(o), "options_rest": itoa(o), "copts": "", "n": itoa(n), "ast": ast.Sexpr(), "ngroups": itoa(ng), "anyi": "1"}})
					}
				}
			}
			// nested on/off groups against the reference scoping
			for _, p := range patterns.ShapesOf("options") {
				for _, o := range []int{0, patterns.OptN, patterns.OptX, patterns.OptI | patterns.OptN} {
					ast, ng, err := patterns.Parse(p.Text, o)
					if err != nil {
						continue
					}
					for n := 0; n <= maxN; n++ {
						us = append(us, Unit{ID: fmt.Sprintf("C18/%s/nested/o%d/n%d", p.Text, o, n), Harness: "spell", Params: map[string]string{"pattern": p.Text, "pattern_inline": p.Text, "pattern_wrap": p.Text,
							"options": itoa(o), "options_rest": itoa(o), "copts": "", "n": itoa(n), "ast": ast.Sexpr(), "ngroups": itoa(ng), "anyi": "1"}})
					}
				}
			}
			return us
		},
		Rule:      "For each (pattern, option subset O of {i,m,s,n,x}, n): the pattern compiled with O as compile option, as leading (?O) and as wrapping (?O:...) (three real compiles inside the interpreter); n symbolic runes; all feasible paths; the three snapshots are asserted equal and equal to the reference matcher run on the independent parse with O applied (option scoping incl. nested (?O)...(?-O)).",
		Witnesses: []string{"match", "nomatch", "spec-leg", "end"},
	})
	register(&propSpec{
		ID: "C20",
		Build: func(tier string, seed int) []Unit {
			ps := dedup(append(patterns.ShapesOf("case", "findmode-prefix", "findmode-set", "classes", "alternation", "autoatomic", "opcodes"), enumPats(tier, seed)...))
			// every ASCII letter (and a few others) as the first and as the second rune of a literal prefix:
			// the ignore-case searches special-case letters by range
			for c := 'a'; c <= 'z'; c++ {
				ps = append(ps, patterns.FromText(string(c)+"q", 0, "shape:alphabet"), patterns.FromText("q"+string(c)+"1", 0, "shape:alphabet"))
			}
			for _, c := range []rune{'é', 'ÿ', 'σ', 'ω', 'ж', 'я', 'ß', 'k'} {
				ps = append(ps, patterns.FromText(string(c)+"q", 0, "shape:alphabet"), patterns.FromText("1"+string(c), 0, "shape:alphabet"))
			}
			// a literal run whose only cased letter is its last / its middle character
			for _, c := range []rune{'a', 'k', 's', 'z'} {
				ps = append(ps, patterns.FromText("1"+string(c), 0, "shape:alphabet"), patterns.FromText("-"+string(c), 0, "shape:alphabet"), patterns.FromText("12"+string(c), 0, "shape:alphabet"),
					patterns.FromText("1"+string(c)+"2", 0, "shape:alphabet"), patterns.FromText(`\d+ `+string(c)+`\b`, 0, "shape:alphabet"), patterns.FromText(`1\.`+string(c), 0, "shape:alphabet"))
			}
			ps = dedup(ps)
			// multi-literal leading prefixes exist only with the code-generator analysis
			cgPats := []string{`1ab|2cd`, `-ab|+cd`, `ab|cd`, `1a|2b|3c`, `a1|b2`}
			maxN, maxVar := 3, 2
			if tier == "thorough" {
				maxN, maxVar = 4, 6
			}
			var us []Unit
			for _, p := range ps {
				base, vars := flippedVariants(p.Text, patterns.OptI, maxVar)
				if base == "" {
					continue
				}
				if len(vars) == 0 {
					vars = []string{""}
				}
				for _, v := range vars {
					for n := 0; n <= maxN; n++ {
						dom := "case"
						if tier == "thorough" && n <= 2 {
							dom = "quick" // the larger clipped domain for the short texts only (case maps make every query expensive)
						}
						us = append(us, Unit{ID: fmt.Sprintf("C20/%s/%s/n%d", base, v, n), Harness: "icase", Domain: dom, Params: map[string]string{"pattern": base, "pattern_flipped": v,
							"options": itoa(patterns.OptI), "copts": "", "n": itoa(n), "key_extra": v}})
					}
				}
			}
			for _, t := range cgPats {
				base, vars := flippedVariants(t, patterns.OptI, 3)
				for _, v := range append([]string{""}, vars...) {
					for n := 2; n <= 3; n++ {
						us = append(us, Unit{ID: fmt.Sprintf("C20/%s/g/%s/n%d", base, v, n), Harness: "icase", Domain: "case", Params: map[string]string{"pattern": base, "pattern_flipped": v,
							"options": itoa(patterns.OptI), "copts": "g", "n": itoa(n), "key_extra": "g/" + v}})
					}
				}
			}
			return us
		},
		Rule:      "For each (IgnoreCase pattern, pattern variant with up to two literal letters / class members case-flipped, n): n symbolic runes restricted to caseless runes and plain upper/lower pairs, plus a second text t' with t'[i] = t[i] or its case partner; all feasible paths; match position and length on t, on t' and for the flipped pattern on t are asserted equal; for programs with a raw-string prefix filter MatchString(string(t)) and MatchString(string(t')) are asserted equal to each other and to the rune result.",
		Witnesses: []string{"match", "nomatch", "string-leg", "end"},
	})
}

func init() {
	register(&propSpec{
		ID: "C04",
		Build: func(tier string, seed int) []Unit {
			ps := dedup(append(append(append(patterns.ShapePats(), systematicPats(tier, seed)...), mirrorPats(tier, seed, true)...), enumPats(tier, seed)...))
			maxN := 4
			if tier == "thorough" {
				maxN = 5
			}
			var us []Unit
			for i, p := range ps {
				for k, cfg := range []struct {
					o  int
					co string
				}{{0, ""}, {0, "g"}, {patterns.OptRTL, ""}, {patterns.OptI, ""}, {patterns.OptI, "g"}} {
					if p.Source == "shape:succloop" && tier != "thorough" {
						if !(cfg.o == patterns.OptRTL || k == 0 && (i+seed)%2 == 0) {
							continue
						}
					} else if tier != "thorough" && k > 0 && ((i+seed)%4 != k-1 || (isSystematic(p) && k > 1)) {
						continue
					}
					us = append(us, unitsFor("C04", "facts", p, cfg.o, cfg.co, maxN, nil, false)...)
				}
			}
			us = append(us, limitUnits(tier, "C04", "facts", []struct {
				o  int
				co string
			}{{0, ""}, {0, "g"}, {patterns.OptRTL, ""}}, false)...)
			return us
		},
		Rule:      "For each (pattern, options, code-gen flag, n): n symbolic runes; the compiled program is attempted at every position p (single-position attempt, no scanning); on every feasible path with a match at p every published fact (MinRequiredLength as remaining-length bound, MaxPossibleLength, leading/trailing anchor, LeadingPrefix(es), FixedDistanceSets/Char/String, LiteralAfterLoop, landmark chain as a necessary condition, FcPrefix, BmPrefix, Anchors bits) is asserted at p.",
		Witnesses: []string{"match", "end", "fact:FcPrefix", "fact:FixedDistanceSets", "fact:LeadingPrefix"},
	})
}

// ---------------------------------------------------------------- C17

type grpKind struct {
	open string // text after '('
	name string // "" unnamed, else name or number
}

var groupPatternsAllModes = map[string]bool{}

// groupPatterns enumerates patterns mixing unnamed, named, explicitly numbered and duplicate-named groups.
func groupPatterns(tier string) []string {
	kinds := []grpKind{{"", ""}, {"?<x>", "x"}, {"?<y>", "y"}, {"?<3>", "3"}, {"?<7>", "7"}, {"?<x1>", "x1"}, {"?'q'", "q"}, {"?<2>", "2"}}
	bodies := []string{"a", "b", "c", "[ab]"}
	var out []string
	seen := map[string]bool{}
	add := func(s string) {
		if !seen[s] {
			seen[s] = true
			out = append(out, s)
		}
	}
	g := func(k grpKind, body string) string { return "(" + k.open + body + ")" }
	// runs of consecutive explicit numbers next to unnamed and named groups
	for _, s := range []string{`(a)(?<2>b)(?<3>c)(?<n>a)`, `(?<2>a)(?<3>b)(?<x>c)`, `(a)(?<2>b)(?<3>c)(?<4>a)(?<n>b)(c)`, `(?<1>a)(?<2>b)(?<n>c)`, `(?<n>a)(?<2>b)(?<3>c)(b)`,
		`(a)(b)(?<3>c)(?<4>a)(?<x>b)(?<y>c)`, `(?<3>a)(?<2>b)(?<1>c)(?<n>a)`, `(?<2>a)|(?<3>b)|(?<n>c)|(a)`} {
		add(s)
	}
	// ExplicitCapture switched on and off inside the pattern: unnamed groups in its scope do not count,
	// named ones do, and numbering continues after the scope
	for _, s := range []string{`(?n:(?<x>a))(b)`, `(?n)(?<x>a)(?-n)(b)(c)`, `(?n:(a))(b)`, `(a)(?n:(b)(?<x>c))(a)`, `((?n)(a)(?<x>b))(c)`, `(?n:(?<x>a)(b))(?<y>c)(a)`,
		`(?n:(a)(?<x>b))(?<x>c)(a)`, `(a)(?n)(b)(?<y>c)(?-n)(a)`, `(?n:(?<y>a)|(b))(c)`, `(?-n:(a))(?<x>b)`, `(?n:(?-n:(a))(b))(c)`} {
		add(s)
	}
	// sparse explicit numbers with gaps below a number that is smaller than the group count
	add(`(?<2>a+)(?<5>b+)?`)
	add(`(?<3>a)(?<9>b)?(c)?`)
	add(`(?<w>a)(?<4>b)?(?<20>c)?(a)?`)
	// more than nine groups (two-digit references)
	add(`()()()()()()()()()(a)(b)?`)
	add(`(?<k>a)()()()()()()()()()(b)?`)
	for _, s := range out {
		groupPatternsAllModes[s] = true // the hand-written ones above run under every mode in both tiers
	}
	for i, k1 := range kinds {
		add(g(k1, "a"))
		for j, k2 := range kinds {
			b1, b2 := bodies[i%4], bodies[(j+1)%4]
			add(g(k1, b1) + g(k2, b2))
			add(g(k1, b1) + "|" + g(k2, b2))
			add(g(k1, b1+g(k2, b2)))
			add(g(k1, b1) + "?" + g(k2, b2))
			if tier == "thorough" {
				for l, k3 := range kinds {
					b3 := bodies[(l+2)%4]
					add(g(k1, b1) + g(k2, b2) + g(k3, b3))
					add(g(k1, b1+g(k2, b2)) + g(k3, b3))
					add(g(k1, b1) + "|" + g(k2, b2) + g(k3, b3))
				}
			} else if (i+j)%2 == 0 {
				k3 := kinds[(i+j+1)%len(kinds)]
				add(g(k1, b1) + g(k2, b2) + g(k3, "c"))
				add(g(k1, b1+g(k2, b2)) + g(k3, "c"))
			}
		}
	}
	return out
}

// expectedGroups computes the documented numbering from the independent parse.
// order=true: MaintainCaptureOrder (pure pattern order).
func expectedGroups(text string, options int, order bool) (nums []int, names []string, firstNamed string, firstNamedNum int, ok bool) {
	nums, names, firstNamed, firstNamedNum, _, ok = expectedGroupsAST(text, options, order)
	return
}

// expectedGroupsAST additionally returns the reference AST with the group numbers of the documented rule.
func expectedGroupsAST(text string, options int, order bool) (nums []int, names []string, firstNamed string, firstNamedNum int, sexpr string, ok bool) {
	ast, _, err := patterns.Parse(text, options)
	if err != nil {
		return nil, nil, "", 0, "", false
	}
	defer func() {
		if ok && ast.InFragmentC01() {
			sexpr = ast.Sexpr()
		}
	}()
	type g struct {
		num  int
		name string
	}
	var gs []g
	seen := map[int]bool{}
	if order {
		// renumber in order of opening parenthesis; duplicate names share a slot
		next := 1
		byName := map[string]int{}
		ast.Walk(func(n *patterns.Node) {
			if n.K != patterns.Cap {
				return
			}
			if n.Name == "" {
				n.G = next
				next++
			} else if v, ok := byName[n.Name]; ok {
				n.G = v
			} else {
				n.G = next
				byName[n.Name] = next
				next++
			}
		})
	}
	ast.Walk(func(n *patterns.Node) {
		if n.K == patterns.Cap && !seen[n.G] {
			seen[n.G] = true
			name := n.Name
			if name == "" {
				name = itoa(n.G)
			}
			gs = append(gs, g{n.G, name})
			if n.Name != "" && firstNamed == "" {
				if _, err := strconv.Atoi(n.Name); err != nil {
					firstNamed, firstNamedNum = n.Name, n.G
				}
			}
		}
	})
	sort.Slice(gs, func(i, j int) bool { return gs[i].num < gs[j].num })
	nums, names = []int{0}, []string{"0"}
	for _, x := range gs {
		nums = append(nums, x.num)
		names = append(names, x.name)
	}
	return nums, names, firstNamed, firstNamedNum, "", true
}

func joinInts(xs []int) string {
	s := ""
	for i, x := range xs {
		if i > 0 {
			s += ","
		}
		s += itoa(x)
	}
	return s
}

func joinStrs(xs []string) string {
	s := ""
	for i, x := range xs {
		if i > 0 {
			s += ","
		}
		s += x
	}
	return s
}

func init() {
	register(&propSpec{
		ID: "C17",
		Build: func(tier string, seed int) []Unit {
			maxN := 2
			if tier == "thorough" {
				maxN = 3
			}
			var us []Unit
			for i, p := range groupPatterns(tier) {
				for k, cfg := range []struct {
					o  int
					co string
				}{{0, ""}, {0, "o"}, {patterns.OptRE2, ""}, {patterns.OptN, ""}, {patterns.OptE, ""}} {
					if tier != "thorough" && k > 0 && (i+seed)%4 != k-1 && !groupPatternsAllModes[p] {
						continue
					}
					order := cfg.co == "o" || cfg.o&patterns.OptE != 0
					if order && (containsDigitName(p)) {
						continue // explicit numbers under MaintainCaptureOrder: undocumented interaction, not generated
					}
					nums, names, fn, fnum, sexpr, ok := expectedGroupsAST(p, cfg.o, order)
					if !ok {
						continue
					}
					if cfg.o&patterns.OptE != 0 {
						// documented: in ECMAScript mode unnamed groups have no name
						for i, nm := range names {
							if nm == itoa(nums[i]) {
								names[i] = ""
							}
						}
					}
					extra := map[string]string{"nums": joinInts(nums), "names": joinStrs(names)}
					if sexpr != "" {
						extra["ast"] = sexpr
					}
					if fn != "" {
						extra["pattern_byname"] = "(?:" + p + `)\k<` + fn + `>`
						extra["pattern_bynumber"] = "(?:" + p + `)\` + itoa(fnum)
						if fnum > 9 {
							delete(extra, "pattern_byname")
							delete(extra, "pattern_bynumber")
						}
					}
					us = append(us, unitsFor("C17", "groups", patterns.Pat{Text: p}, cfg.o, cfg.co, maxN, extra, false)...)
				}
			}
			return us
		},
		Rule:      "For each (group-mix pattern, mode in {default, MaintainCaptureOrder, RE2, ExplicitCapture, ECMAScript}, n): the expected numbering is computed from an independent parse by the documented rule; GetGroupNumbers/Names, both look-ups and unknown look-ups are asserted (concrete); with n symbolic runes, on every feasible path the order and names of Match.Groups, GroupByName/Number, and equality of the pattern followed by \\k<name> vs \\<number> are asserted.",
		Witnesses: []string{"match", "nomatch", "backref-leg", "spec-leg", "replacement-leg", "end"},
	})
}

func containsDigitName(p string) bool {
	for i := 0; i+2 < len(p); i++ {
		if p[i] == '?' && p[i+1] == '<' && p[i+2] >= '0' && p[i+2] <= '9' {
			return true
		}
	}
	return false
}

// ---------------------------------------------------------------- C19

func init() {
	register(&propSpec{
		ID: "C19",
		Build: func(tier string, seed int) []Unit {
			var us []Unit
			add := func(n int, dom string) {
				us = append(us, Unit{ID: fmt.Sprintf("C19/roundtrip/%s/n%d", dom, n), Harness: "escape", Domain: dom, PathBudget: 400000,
					Params: map[string]string{"n": itoa(n), "pattern": "roundtrip", "key_extra": dom}})
			}
			add(0, "full")
			add(1, "full")
			add(2, "quick")
			opts := []int{0, patterns.OptX, patterns.OptRE2, patterns.OptE}
			cdom := "quick"
			if tier == "thorough" {
				add(2, "full")
				add(3, "case")
				opts = []int{0, patterns.OptX, patterns.OptM | patterns.OptS, patterns.OptN, patterns.OptRE2, patterns.OptE, patterns.OptX | patterns.OptN | patterns.OptM}
			}
			for _, o := range opts {
				for k := 0; k <= 2; k++ {
					us = append(us, Unit{ID: fmt.Sprintf("C19/compile/o%d/n1/k%d", o, k), Harness: "escapecompile", Domain: cdom, PathBudget: 60000,
						Params: map[string]string{"n": "1", "k": itoa(k), "options": itoa(o), "pattern": "compile"}})
				}
			}
			return us
		},
		Rule:      "s = string of n symbolic Unicode scalar values over all of Unicode (surrogates excluded); every feasible path of Escape and Unescape (incl. strconv.FormatInt and the parser's escape scanner) is explored and Unescape(Escape(s)) == s with nil error is asserted; compile leg: n = 1, the pattern \\A(?:Escape(s))\\z (anchors that ignore a trailing newline would also accept s+newline) goes through the real parser/reducer/writer with the symbolic literal and MatchRunes(u) <=> u == s is asserted for a second symbolic text u of k <= 2 runes under 6 option sets.",
		Witnesses: []string{"escaped", "unchanged", "end"},
	})
}

// ---------------------------------------------------------------- C16

func init() {
	register(&propSpec{
		ID: "C16",
		Build: func(tier string, seed int) []Unit {
			var us []Unit
			for _, m := range []struct {
				mode string
				o    int
			}{{"", 0}, {"i", patterns.OptI}, {"e", patterns.OptE}, {"r", patterns.OptRE2}} {
				for i, c := range patterns.ClassExprs(m.mode, seed, tier == "thorough" && false) {
					for _, co := range []string{"", "b"} {
						if co == "b" && tier != "thorough" && (i+seed)%4 != 0 {
							continue
						}
						us = append(us, Unit{ID: fmt.Sprintf("C16/%s/o%d%s", c.Text, m.o, co), Harness: "class", Domain: "full",
							Params: map[string]string{"pattern": c.Text, "options": itoa(m.o), "copts": co, "ast": c.Sexpr, "nosummary_charin": "1"}})
					}
				}
			}
			return us
		},
		Rule:      "For each class expression of the class grammar (ranges, negation, nested subtraction, shorthand and Unicode category/script escapes, POSIX names under RE2; <= 3 items, depth <= 2) x {none, IgnoreCase, ECMAScript, RE2} x ASCII bitmap on/off: one symbolic rune r over all of U+0000-U+10FFFF (under IgnoreCase: caseless runes and plain upper/lower pairs; class members with ASCII end-points); every feasible path of CharSet.CharIn (not summarised: ASCII bitmap, linear and binary range search, categories, negation, subtraction) is explored and asserted equal to set algebra over the class AST; the same for the single-character, loop and prefix-set uses through MatchRunes.",
		Witnesses: []string{"set", "member", "non-member", "end"},
	})
}

// ---------------------------------------------------------------- C02, C08, C09 (string level)

func stringUnits(prop, harness string, ps []patterns.Pat, cfgs []struct {
	o  int
	co string
}, modes []string, maxN map[string]int, extra map[string]string, thin func(i, k int) bool) []Unit {
	var us []Unit
	for i, p := range ps {
		for k, cfg := range cfgs {
			if thin != nil && !thin(i, k) {
				continue
			}
			for _, mode := range modes {
				for n := 0; n <= maxN[mode]; n++ {
					params := map[string]string{"pattern": p.Text, "options": itoa(cfg.o), "copts": cfg.co, "n": itoa(n), "mode": mode, "key_extra": mode}
					for kk, v := range extra {
						params[kk] = v
					}
					dom := ""
					if mode == "b" {
						dom = "full" // raw bytes decode to any rune: the clipped rune domain would be unsound here
					}
					us = append(us, Unit{ID: fmt.Sprintf("%s/%s/o%d%s/%s%d", prop, p.Text, cfg.o, cfg.co, mode, n), Harness: harness, Domain: dom, Params: params})
				}
			}
		}
	}
	return us
}

var filterShapes = []string{`(?:ab*){2}`, `(c[ab]){2,}`, `(?:ab){2}c`, `\G{2}ab`, `ab(?<=\Gab)`, `(?(?=\G)a|b)`, `abc`, `ab|cd`, `(?i)abc`, `[ab]c`, `a.c`, `\w+@x`, `a+b`, `x*y`, `(a)(b)?`, `(?<o>a)+(?<-o>b)+(?(o)(?!))`, `é+`, `\p{Lu}\w`, `.`, `(?s).`, `[^a]`, `\b\w`, `^a|b$`, `a*`, `\Ga`, `(?<=a)b`, `a{2}`, `(?:a|ab)c`, `\x{10000}`, `�`, `a\z`}

func init() {
	cfgs := []struct {
		o  int
		co string
	}{{0, ""}, {0, "g"}, {0, "b"}, {patterns.OptRTL, ""}, {patterns.OptI, ""}, {patterns.OptRE2, ""}, {patterns.OptE, ""}}
	register(&propSpec{
		ID: "C02",
		Build: func(tier string, seed int) []Unit {
			var ps []patterns.Pat
			for _, t := range filterShapes {
				ps = append(ps, patterns.FromText(t, 0, "shape:entry"))
			}
			ps = dedup(append(ps, patterns.ShapesOf("findmode-prefix", "findmode-set", "zerowidth", "opcodes", "findmode-literalafterloop")...))
			mx := map[string]int{"s": 3, "b": 3}
			if tier == "thorough" {
				mx = map[string]int{"s": 4, "b": 4}
				ps = dedup(append(ps, enumPats("quick", seed)...))
			}
			us := stringUnits("C02", "entry", ps, cfgs, []string{"s", "b"}, mx, nil, func(i, k int) bool {
				return tier == "thorough" || k == 0 || (i+seed)%6 == k-1
			})
			// multi-literal prefix filters exist only with the code-generator analysis: alternations whose
			// branches contain each other, start with the same / different bytes, or are non-ASCII
			var cg []patterns.Pat
			for _, t := range []string{`bc|abc`, `ab|cab`, `b|ab`, `ab|cd`, `abc|abd|xyz`, `aa|ab|ba`, `(?:bc|abc)\b`, `é|aé`, `ab|b|a`, `(?i)bc|abc`, `bc|abc|c`, `ab|abc`} {
				cg = append(cg, patterns.FromText(t, 0, "shape:entry-codegen"))
			}
			us = append(us, stringUnits("C02", "entry", cg, cfgs[1:2], []string{"s", "b"}, mx, nil, nil)...)
			// raw-string filters that convert a rune distance into a byte offset: fixed-distance literals and
			// sets behind a window of 2-4 arbitrary runes, on subjects of 4-5 runes over an alphabet that mixes
			// 1-, 2- and 3-byte runes
			for _, t := range []string{`\w{3}a`, `[^ ]{3}:`, `(?s)...x`, `\w{2}ab`, `..[ab]c`, `\w{3}[:;]`, `.{2}a.{2}`, `(?i)\w{3}a`, `\w{2}é`} {
				for _, cfg := range []struct {
					o  int
					co string
				}{{0, ""}, {0, "g"}} {
					for _, n := range []int{4, 5} {
						us = append(us, Unit{ID: fmt.Sprintf("C02/%s/o%d%s/r%d", t, cfg.o, cfg.co, n), Harness: "entry", Domain: "full", PathBudget: 60000,
							Params: map[string]string{"pattern": t, "options": itoa(cfg.o), "copts": cfg.co, "n": itoa(n), "mode": "s", "runealphabet": "xéa:", "key_extra": "r"}})
					}
				}
			}
			// balancing groups that only some matches of one call exercise (the capture stack is not empty at the
			// end of those matches): Replace over the whole sequence against the captures FindNextMatch reports
			for _, t := range []string{`(?<o>a)(?:(?<o>a)(?<-o>b))?`, `(?:(?<-o>b)(?<o>a))?(?<o>a)`, `(?<o>a)+(?<-o>b)?`} {
				for _, o := range []int{0, patterns.OptRTL} {
					for _, n := range []int{4, 5} {
						us = append(us, Unit{ID: fmt.Sprintf("C02/%s/o%d/a%d", t, o, n), Harness: "entry", Domain: "full", PathBudget: 60000,
							Params: map[string]string{"pattern": t, "options": itoa(o), "copts": "", "n": itoa(n), "mode": "s", "alphabet": "ab ", "key_extra": "a"}})
					}
				}
			}
			// the regexp-style adapter against the Regexp it wraps (any options, not only RE2: that is C06):
			// byte pairs of every group, -1 pairs, the find-all sequence and its truncation, on raw bytes
			// (n <= 2, thorough 3) and on subjects of 4-5 bytes over a three-letter alphabet
			for _, t := range []string{`(a)|b`, `(a)(b)?`, `(?<n>a)\k<n>`, `(?<=(a))b`, `a*`, `\b`, `(?:(a)|b)*c`, `(?<x>a)|(?<x>b)`, `(?<3>a)(b)?`, `[^a]+`, `(a)(?=(b))`, `(?i)a(B)?`, `.`, `\Ga`, `^|$`, `(é)?a`} {
				for _, o := range []int{0, patterns.OptE, patterns.OptRE2} {
					if o == patterns.OptE && (strings.Contains(t, "<3>") || strings.Contains(t, "(?<x>a)|")) || o == patterns.OptRE2 && strings.Contains(t, "(?<") {
						continue
					}
					for n := 0; n <= 3; n++ {
						if n == 3 && tier != "thorough" {
							continue
						}
						us = append(us, Unit{ID: fmt.Sprintf("C02/adapter/%s/o%d/b%d", t, o, n), Pkg: "compat", Harness: "compatentry", Domain: "full",
							Params: map[string]string{"pattern": t, "options": itoa(o), "copts": "", "n": itoa(n), "mode": "b", "key_extra": "adapter/b"}})
					}
					for _, n := range []int{4, 5, 6} {
						if n == 6 && tier != "thorough" {
							continue
						}
						us = append(us, Unit{ID: fmt.Sprintf("C02/adapter/%s/o%d/a%d", t, o, n), Pkg: "compat", Harness: "compatentry", Domain: "full",
							Params: map[string]string{"pattern": t, "options": itoa(o), "copts": "", "n": itoa(n), "mode": "a", "alphabet": "abc", "key_extra": "adapter/a"}})
					}
				}
			}
			return us
		},
		Rule:      "For each (pattern, options, compile options, n): the subject is a string of n symbolic Unicode scalars (mode s) or n raw symbolic bytes incl. invalid UTF-8 (mode b); every feasible path through MatchString, MatchRunes, FindStringMatch, FindRunesMatch, the StartingAt variants, FindNextMatch iteration, FindAllRunesIndex, FindAllStringIndex (rune->byte mapping recomputed by the harness), ReplaceFunc's match enumeration and Split's piece count is explored and their agreement asserted.",
		Witnesses: []string{"match", "nomatch", "end"},
	})
	register(&propSpec{
		ID: "C08",
		Build: func(tier string, seed int) []Unit {
			var ps []patterns.Pat
			for _, t := range []string{`(?<o>a)+(?<-o>b)+(?(o)(?!))`, `(a)|(b)`, `(?<=(a)b)c`, `(a)*`, `((a)|(b))*c`, `(?:(a)b)+`, `(a)(?=(b))`, `(.)\1`, `(é)+`, `(\w)(\W)?`, `.`, `(?s)(.)+`, `(a*)(b*)`, `()`, `(?<x>a)(?<x>b)?`, `�`, `[^a]+`, `(a)?b`} {
				ps = append(ps, patterns.FromText(t, 0, "shape:wellformed"))
			}
			ps = dedup(append(ps, patterns.ShapesOf("opcodes", "groups", "balancing")...))
			mx := map[string]int{"s": 3, "b": 3}
			if tier == "thorough" {
				mx = map[string]int{"s": 4, "b": 5}
				ps = dedup(append(ps, enumPats("quick", seed)...))
			}
			us := stringUnits("C08", "wellformed", ps, cfgs[:4], []string{"s", "b"}, mx, nil, func(i, k int) bool {
				// the hand-written patterns (the first 18) always also run right-to-left
				return tier == "thorough" || k == 0 || k == 3 && i < 18 || (i+seed)%3 == k-1
			})
			// capture stacks with pushes, pops and re-pushes (balancing groups, captures inside loops and
			// look-behind): the bookkeeping shows only on subjects with several sibling pairs, so these run on
			// longer subjects over a two/three-letter alphabet (every byte still a solver variable)
			deepN := []int{4, 5, 6}
			if tier == "thorough" {
				deepN = []int{4, 5, 6, 7, 8}
			}
			for _, t := range []string{`(?:(?<o>a)|(?<-o>b))+(?(o)(?!))`, `^(?:(?<o>a)|(?<x-o>b)|c)*(?(o)(?!))$`, `(?:(?<o>a)|(?<x-o>b))+\k<x>?`, `(?:(?<o>a)+(?<x-o>b)+)+(?<-x>c)?`,
				`(?:(?<o>a)|(?<-o>b))+\k<o>`, `((a)|(b))*c`, `(?:(a)|b)*(?<=(b)a*)`, `(?<o>a)+(?<-o>b)+(?(o)(?!))`, `(?:(?<o>a)(?<p>b)?|(?<q-o>c))+`, `(?:(?<o>a)|(?<y-o>(?<z-o>b)))+`} {
				for _, o := range []int{0, patterns.OptRTL} {
					for _, n := range deepN {
						us = append(us, Unit{ID: fmt.Sprintf("C08/deep/%s/o%d/n%d", t, o, n), Harness: "wellformed", PathBudget: 60000,
							Params: map[string]string{"pattern": t, "options": itoa(o), "copts": "", "n": itoa(n), "mode": "s", "alphabet": "abc", "key_extra": "deep"}})
					}
				}
			}
			return us
		},
		Rule:      "For each (pattern, options, n): subject = n symbolic scalars or n raw symbolic bytes; all matches are enumerated on every feasible path; every capture of every group lies inside the input, group 0 has one capture equal to the match, the embedded capture is the last capture, String()/Runes() equal the addressed slice, ByteRange() equals the UTF-8 byte span recomputed by the harness from the decode widths (each invalid byte one rune).",
		Witnesses: []string{"match", "group-with-capture", "end"},
	})
	register(&propSpec{
		ID: "C09",
		Build: func(tier string, seed int) []Unit {
			var ps []patterns.Pat
			for _, t := range []string{`a`, `(a)`, `(a)(b)?`, `(?<x>a)|b`, `a*`, `\b`, `(?<2>a)(b)`, `(?<1>a)(?<7>b)?`, `(?<3>a)|(?<x>b)`, `[ab]+`, `(a)|(b)`, `.`, `a|`, `(?<n>.)\k<n>`, `^`, `$`, `(\w)(\w)`} {
				ps = append(ps, patterns.FromText(t, 0, "shape:replace"))
			}
			reps := []string{"<$&>", "$1", "${1}x", "$$", "$`|$'", "$+", "$_", "${x}", "${n}", "$2$1", "x", "$", "$9", "${", "$10", "${2}", "", "$7", "${7}$1", "$3${x}"}
			maxN, symN := 2, "1"
			if tier == "thorough" {
				maxN, symN = 3, "2"
			}
			var us []Unit
			for i, p := range ps {
				for k, o := range []int{0, patterns.OptRTL} {
					for r, rep := range reps {
						if tier != "thorough" && (i+r+k+seed)%3 != 0 {
							continue
						}
						for n := 0; n <= maxN; n++ {
							us = append(us, Unit{ID: fmt.Sprintf("C09/%s/o%d/%s/n%d", p.Text, o, rep, n), Harness: "replace",
								Params: map[string]string{"pattern": p.Text, "options": itoa(o), "copts": "", "n": itoa(n), "rep": rep, "repk": "0", "key_extra": rep}})
						}
					}
					// symbolic replacement strings over the $-grammar alphabet
					if tier == "thorough" || (i+k+seed)%4 == 0 {
						for _, rk := range []int{2, 3} {
							if rk == 3 && tier != "thorough" {
								continue
							}
							us = append(us, Unit{ID: fmt.Sprintf("C09/%s/o%d/sym%d/n%s", p.Text, o, rk, symN), Harness: "replace", PathBudget: 60000,
								Params: map[string]string{"pattern": p.Text, "options": itoa(o), "copts": "", "n": symN, "rep": "", "repk": itoa(rk), "key_extra": "symrep"}})
						}
					}
				}
			}
			// sparse explicit numbers with a gap BELOW a referenced number, and balancing groups whose stack is not
			// empty at the end of a match (later matches of one call pop, the first does not): subjects of 4-5
			// symbols over a three-letter alphabet
			for _, c := range []struct{ pat, al string; reps []string }{
				{`(?<2>a+)(?<5>b+)?`, "ab ", []string{"<$2>", "${5}|$2", "$+", "$1$2"}},
				{`(?<3>a)(?<9>b)?(c)?`, "abc", []string{"<$3>", "$9$3", "$1", "$+"}},
				{`(?<o>a)+(?<-o>b)?`, "ab ", []string{"[${o}]", "$1|$&", "$+"}},
				{`(?:(?<o>a)|(?<x-o>b))+`, "ab ", []string{"[${o}|${x}]", "$+"}},
			} {
				for _, o := range []int{0, patterns.OptRTL} {
					for _, rep := range c.reps {
						for _, n := range []int{4, 5} {
							if n == 5 && tier != "thorough" && o != 0 {
								continue
							}
							us = append(us, Unit{ID: fmt.Sprintf("C09/%s/o%d/%s/a%d", c.pat, o, rep, n), Harness: "replace", PathBudget: 60000,
								Params: map[string]string{"pattern": c.pat, "options": itoa(o), "copts": "", "n": itoa(n), "rep": rep, "repk": "0", "mode": "s", "alphabet": c.al, "key_extra": "deep/" + rep}})
						}
					}
				}
			}
			// more than nine groups: multi-digit group references, also under the ECMAScript rule
			// (longest run of digits that names an existing group)
			for _, pt := range []string{`()()()()()()()()()(a)(b)?`, `(?<k>a)()()()()()()()()()(?<12>b)?`} {
				for _, o := range []int{0, patterns.OptE, patterns.OptRTL} {
					if o == patterns.OptE && strings.Contains(pt, "<12>") {
						continue // ECMAScript group names are identifiers
					}
					for _, rep := range []string{"<$10>", "$11$10", "$12", "$100", "$1$2", "${10}0", "$9$10x", "$010", "${k}$13"} {
						for n := 0; n <= maxN-1; n++ {
							us = append(us, Unit{ID: fmt.Sprintf("C09/%s/o%d/%s/n%d", pt, o, rep, n), Harness: "replace",
								Params: map[string]string{"pattern": pt, "options": itoa(o), "copts": "", "n": itoa(n), "rep": rep, "repk": "0", "key_extra": rep}})
						}
					}
				}
			}
			return us
		},
		Rule:      "For each (pattern, direction, replacement, n): subject = string of n symbolic scalars; startAt in [-1,len] and count in [-1,2] are solver variables (case-split); the replacement is a fixed string from the $-grammar or k symbolic bytes over the alphabet {$,{,},0,1,2,a,&,`,',+,_,x}; on every feasible path Replace equals the fold over FindStringMatchStartingAt/FindNextMatch with an independent $-expander, ReplaceFunc with that expander equals Replace, Replace with $& is the identity, Split pieces re-joined with the matched texts rebuild the input.",
		Witnesses: []string{"replaced", "nothing-replaced", "split-leg", "end"},
	})
}

// ---------------------------------------------------------------- C06

// inRE2Fragment: constructs common to both engines on which leftmost-first and
// backtracking semantics coincide (no quantified nullable sub-pattern).
func inRE2Fragment(text string) bool {
	a, _, err := patterns.Parse(text, patterns.OptRE2)
	if err != nil || !a.InFragmentC01() {
		return false
	}
	ok := true
	a.Walk(func(n *patterns.Node) {
		switch n.K {
		case patterns.Look, patterns.Atomic, patterns.Backref, patterns.CondRef, patterns.CondExpr, patterns.StartG, patterns.EndZ:
			ok = false
		case patterns.Cap:
			if n.Name != "" {
				ok = false // (?<n>..) spelling differs between Go versions; numbered groups only
			}
		case patterns.Class:
			for _, it := range n.Items {
				if it.Cat != "" && it.Cat != "d" && it.Cat != "w" && it.Cat != "s" && it.Cat != "Lu" && it.Cat != "Ll" && it.Cat != "L" && it.Cat != "Nd" && it.Cat != "Greek" {
					ok = false
				}
			}
		}
	})
	if strings.Contains(text, "(?") && !strings.Contains(text, "(?:") && !strings.Contains(text, "(?i") && !strings.Contains(text, "(?s") && !strings.Contains(text, "(?m") {
		ok = false
	}
	return ok
}

func init() {
	register(&propSpec{
		ID: "C06",
		Build: func(tier string, seed int) []Unit {
			extra := []string{`a`, `ab`, `a|b`, `a*`, `a+b`, `(a)(b)?`, `(a|ab)(c|bcd)(d*)`, `[ab]+`, `[^a]`, `.`, `(?s).`, `^a`, `a$`, `(?m)^a$`, `\Aa`, `a\z`, `\ba`, `a\b`, `\Ba`, `\d+`, `\w+`, `\s`, `\W`,
				`(a*)(b*)`, `(?i)ab`, `a*?b`, `(a+?)(b*)`, `a{2}`, `(?:ab){1,2}`, `x*`, `(a)|b`, `(a)|(b)`, `é`, `\p{Lu}`, `\p{Greek}+`, `[[:alpha:]]+`, `[[:^digit:]]`, `\x{10000}`, `a.c`, `()`, `(|a)`, `a||b`, `\S+`, `[\d\s]`, `(?i)k`, `(?i)[a-c]x`, `^`, `$`, `\b`, `a?`, `(a?)(a?)`, `�`}
			var ps []patterns.Pat
			for _, t := range extra {
				ps = append(ps, patterns.FromText(t, 0, "shape:re2"))
			}
			ps = dedup(append(ps, enumPats(tier, seed)...))
			maxN := 2
			if tier == "thorough" {
				maxN = 3
			}
			var us []Unit
			cnt := 0
			for _, p := range ps {
				if p.Source == "enum" {
					if !inRE2Fragment(p.Text) {
						continue
					}
					cnt++
					if tier != "thorough" && cnt%3 != seed%3 {
						continue
					}
				}
				for n := 0; n <= maxN; n++ {
					if p.Source == "enum" && n == maxN {
						continue // generated patterns: one byte less than the hand-picked ones
					}
					us = append(us, Unit{ID: fmt.Sprintf("C06/%s/n%d", p.Text, n), Pkg: "compat", Harness: "compat", Domain: "full",
						Params: map[string]string{"pattern": p.Text, "options": "512", "copts": "", "n": itoa(n)}})
				}
			}
			// subjects of 3-4 runes over an alphabet that mixes 1- and 2-byte runes: byte offsets behind
			// multi-byte runes, raw-string filters that step back over runes of different widths
			for _, t := range []string{`..x`, `(.)(.)x`, `.{2}x`, `[^a][^b]xy`, `a*`, `(a|é)+x`, `\w+x`, `x$`, `.x.`} {
				for _, n := range []int{3, 4} {
					us = append(us, Unit{ID: fmt.Sprintf("C06/%s/r%d", t, n), Pkg: "compat", Harness: "compat", Domain: "full",
						Params: map[string]string{"pattern": t, "options": "512", "copts": "", "n": itoa(n), "runealphabet": "aéxy", "key_extra": "r"}})
				}
			}
			// line anchors around runs of newlines
			for _, t := range []string{`(?m)a\n*$`, `(?m)b\n?$`, `(?m)\n+$`, `(?m)^\n*a`, `a\n*$`, `(?m)$\n*a`, `(?s)a.$`} {
				for _, n := range []int{3, 4} {
					us = append(us, Unit{ID: fmt.Sprintf("C06/%s/r%d", t, n), Pkg: "compat", Harness: "compat", Domain: "full",
						Params: map[string]string{"pattern": t, "options": "512", "copts": "", "n": itoa(n), "runealphabet": "a\nb", "key_extra": "rn"}})
				}
			}
			return us
		},
		Rule:      "For each pattern of the RE2-common fragment and n: the subject is n raw symbolic bytes (invalid UTF-8 included) and the find-all limit k a solver variable in [-1,2]; the adapter (compiled with the RE2 option) and Go's regexp package are BOTH executed symbolically from their SSA on the same bytes; on every feasible path each of the 21 Matcher methods (string, []byte and RuneReader variants) is asserted to return the same value (nil-ness, byte offsets, -1 pairs, empty-match adjacency rule, k).",
		Witnesses: []string{"match", "nomatch", "end"},
	})
}

// ---------------------------------------------------------------- C10

func corpusSeeds(max int, seed int) []string {
	dir := repoDir + "/syntax/workdir/corpus"
	ents, err := os.ReadDir(dir)
	if err != nil {
		return nil
	}
	var all []string
	for _, e := range ents {
		b, err := os.ReadFile(dir + "/" + e.Name())
		if err != nil || len(b) == 0 || len(b) > 24 {
			continue
		}
		all = append(all, string(b))
	}
	sort.Slice(all, func(i, j int) bool {
		return hashSeed(all[i], seed) < hashSeed(all[j], seed)
	})
	if len(all) > max {
		all = all[:max]
	}
	return all
}

func hashSeed(s string, seed int) uint64 {
	var h uint64 = 1469598103934665603 ^ uint64(seed)*1099511628211
	for i := 0; i < len(s); i++ {
		h ^= uint64(s[i])
		h *= 1099511628211
	}
	return h
}

func init() {
	register(&propSpec{
		ID: "C10",
		Build: func(tier string, seed int) []Unit {
			var us []Unit
			nSeeds, perSeed := 16, 1
			if tier == "thorough" {
				nSeeds, perSeed = 300, 3
			}
			handSeeds := []string{`a(b)c`, `[a-c]+`, `(?<n>a)\k<n>`, `a{2,3}?`, `(?i)x|y`, `\p{Lu}\d`, `(a)(?(1)b|c)`, `(?<=a)b`, `[a-z-[aeiou]]`, `A\x41\cA`, `(?<o>a)(?<-o>b)`, `a|b|`, `(?#c)a`, `\bfoo\b`, `^$`, `(a)*?`, `\1(a)`, `[[:alpha:]]`, `(?x) a # c`, `\Ga\Z`}
			if tier != "thorough" {
				// a symbolic literal inside a Boyer-Moore prefix costs minutes (table writes through a symbolic index): thorough only
				handSeeds = handSeeds[1:15]
			}
			seeds := append(handSeeds, corpusSeeds(nSeeds, seed)...)
			for si, sd := range seeds {
				for k := 0; k < perSeed; k++ {
					pos := int(hashSeed(sd, seed+k+1) % uint64(len(sd)))
					o := []int{0, patterns.OptI, patterns.OptRTL, patterns.OptX, patterns.OptE, patterns.OptRE2, patterns.OptM | patterns.OptS | patterns.OptN, patterns.OptI | patterns.OptRTL}[(si+k)%8]
					params := map[string]string{"pattern": sd, "positions": itoa(pos), "options": itoa(o), "texts": ",ab", "symtext": "0", "key_extra": "pos" + itoa(pos), "copts": "b"}
					if tier == "thorough" && k == 0 {
						params["copts"] = "" // with the ASCII bitmaps built from the symbolic class (128 membership tests per set: expensive)
						params["texts"] = ",ab,a\nb"
					}
					if (si+k)%5 == 0 {
						params["symmask"] = "1"
						params["key_extra"] += "/mask"
					}
					us = append(us, Unit{ID: fmt.Sprintf("C10/mutate/%q/p%d/o%d", sd, pos, o), Harness: "mutate", Domain: "full", StepBudget: 80_000_000, PathBudget: 40000, Params: params})
				}
			}
			// numbers that overflow: hex escapes, repeat counts, group numbers and back-references with more digits
			// than an int holds (one digit symbolic)
			for oi, sd := range []string{`\x{FFFFFFFFFFFFFFFF}`, `a\x{10000000000000041}`, `[\x{FFFFFFFFFFFFFFFF}]`, `a{2147483648}`, `a{99999999999999999999}`, `a{1,99999999999999999999}`, `(?<99999999999999999999>a)`,
				`(a)\99999999999999999999`, `\u{FFFFFFFFFFFFFFFFF}`, `\k<99999999999999999999>`, `(?(99999999999999999999)a|b)`, `\x{110000}`, `\777\400`} {
				pos := strings.LastIndexAny(sd, "F90") 
				o := []int{0, patterns.OptI, patterns.OptE | 1024, patterns.OptRE2, patterns.OptRTL}[oi%5]
				us = append(us, Unit{ID: fmt.Sprintf("C10/overflow/%q/p%d/o%d", sd, pos, o), Harness: "mutate", Domain: "full", StepBudget: 80_000_000, PathBudget: 40000,
					Params: map[string]string{"pattern": sd, "positions": itoa(pos), "options": itoa(o), "texts": ",ab", "symtext": "0", "key_extra": "overflow", "copts": "b"}})
			}
			// the landmark-chain finder on texts that end inside a landmark
			for _, sd := range []string{`\w+(?:\s+at\s+|@)\w*(?:\s+dot\s+|\.)\w+`, `[a-z]+(?:\s+at\s+|@)[a-z]+\.[a-z]+`} {
				pos := len(sd) - 1
				us = append(us, Unit{ID: fmt.Sprintf("C10/landmark/%q/p%d", sd, pos), Harness: "mutate", Domain: "full", StepBudget: 80_000_000, PathBudget: 40000,
					Params: map[string]string{"pattern": sd, "positions": itoa(pos), "options": "0", "texts": ",a at,mail me at,a at b dot c,x at y dot z or at,a@b.c", "symtext": "0", "key_extra": "landmark", "copts": "b"}})
			}
			// ECMAScript classes that start with ']' ([] matches nothing, [^] anything): the capture-counting
			// pre-scan and the parser must agree where the class ends
			for _, sd := range []string{`[^](a)[^]`, `[](a)|(b)`, `[^](a)`, `(a)[^]](b)`, `[]]a(b)`} {
				for _, pos := range []int{0, strings.Index(sd, "(a)") + 1} {
					us = append(us, Unit{ID: fmt.Sprintf("C10/ecmaclass/%q/p%d", sd, pos), Harness: "mutate", Domain: "full", StepBudget: 80_000_000, PathBudget: 40000,
						Params: map[string]string{"pattern": sd, "positions": itoa(pos), "options": itoa(patterns.OptE), "texts": ",ab,ba,xab", "symtext": "0", "key_extra": "ecmaclass", "copts": "b"}})
				}
			}
			// short arbitrary patterns: one fully symbolic byte, alone and next to interesting neighbours
			for _, ctx := range []string{"_", "_a", "a_", "(_)", "[_]", `\_`, "a{_}", "(?_)", "a_b", "[a-_]", `\p{_}`, "(?<_>a)", "$_"} {
				pat := strings.Replace(ctx, "_", "X", 1)
				pos := strings.Index(ctx, "_")
				sopts := []int{0, patterns.OptRTL | patterns.OptI}
				if tier == "thorough" {
					sopts = []int{0, patterns.OptRTL | patterns.OptI, patterns.OptE, patterns.OptRE2, patterns.OptX}
				}
				for _, o := range sopts {
					us = append(us, Unit{ID: fmt.Sprintf("C10/short/%s/o%d", ctx, o), Harness: "mutate", Domain: "full", StepBudget: 80_000_000, PathBudget: 40000,
						Params: map[string]string{"pattern": pat, "positions": itoa(pos), "options": itoa(o), "texts": ",ab", "symtext": "1", "key_extra": "short", "copts": "b"}})
				}
			}
			if tier == "thorough" {
				us = append(us, Unit{ID: "C10/short/__/o0", Harness: "mutate", Domain: "full", StepBudget: 80_000_000, PathBudget: 200000,
					Params: map[string]string{"pattern": "XX", "positions": "0,1", "options": "0", "texts": ",ab", "symtext": "0", "key_extra": "short2"}})
			}
			// API arguments
			maxN := 2
			if tier == "thorough" {
				maxN = 3
			}
			for _, p := range []string{`a`, `a*`, `(a)|b`, `\b`, `(?<n>.)`, `$`, `[^a]+`, `(a)(b)?`, `\Ga`, `(?<=a)`, `.`, `(?<1>a)(?<7>.)`, `(?<5>.)|(?<n>a)`} {
				for _, o := range []int{0, patterns.OptRTL} {
					for n := 0; n <= maxN; n++ {
						rep := "<$1${n}$&>"
						if strings.Contains(p, "<7>") {
							rep = "$7|${7}|$1"
						} else if strings.Contains(p, "<5>") {
							rep = "$5${n}"
						}
						us = append(us, Unit{ID: fmt.Sprintf("C10/args/%s/o%d/n%d", p, o, n), Harness: "args", Domain: "full",
							Params: map[string]string{"pattern": p, "options": itoa(o), "copts": "", "n": itoa(n), "rep": rep, "key_extra": "args"}})
					}
				}
			}
			for n := 0; n <= maxN-1; n++ {
				us = append(us, Unit{ID: fmt.Sprintf("C10/escape/n%d", n), Harness: "argsescape", Domain: "full", PathBudget: 100000,
					Params: map[string]string{"pattern": "(a)(?<n>b)", "options": "0", "copts": "", "n": itoa(n), "key_extra": "escape"}})
			}
			// each of Escape / Unescape / replacement-pattern parsing alone on longer arbitrary byte strings
			// (an escape followed by a lone trailing backslash needs three bytes)
			for _, part := range []string{"unesc", "esc"} {
				for n := maxN; n <= maxN+1; n++ {
					if part == "esc" && n > maxN {
						continue
					}
					us = append(us, Unit{ID: fmt.Sprintf("C10/escape-%s/n%d", part, n), Harness: "argsescape", Domain: "full", PathBudget: 200000,
						Params: map[string]string{"pattern": "(a)(?<n>b)", "options": "0", "copts": "", "n": itoa(n), "part": part, "key_extra": "escape-" + part}})
				}
			}
			return us
		},
		Rule: "Three harnesses, all asserting 'returns normally or with an error value; no Go run-time panic on any feasible path'. (1) mutate: a seed pattern (hand-picked + parser corpus files <= 24 bytes) with one byte replaced by a symbolic byte 0..255, compiled by the real parser/reducer/writer/analyzers under a concrete option set (every 5th unit: the option mask itself symbolic over the 9 defined bits), then Match/Find/iterate/FindAll/Replace/Split on fixed texts (and one symbolic text byte for the short patterns). (2) args: fixed patterns, subject = n raw symbolic bytes, startAt in [-2,n+2] and count in [-2,2] as solver variables, every string/rune entry point incl. out-of-range arguments. (3) Escape/Unescape/replacement-pattern parsing of n arbitrary symbolic bytes. 'Never hangs' = every path ends within the instruction budget.",
		Witnesses: []string{"compiled", "parse-error", "match", "end", "argument-error"},
	})
}

// ---------------------------------------------------------------- C12

func init() {
	register(&propSpec{
		ID: "C12",
		Build: func(tier string, seed int) []Unit {
			pats := []struct{ a, b string }{
				{`(a)|b`, `\w+`}, {`(?<o>a)+(?<-o>b)+(?(o)(?!))`, `a`}, {`a+b`, `(a)(b)`}, {`(a*)(b)?`, `[ab]+`}, {`\b\w`, `(x)|y`}, {`(?:(a)|b)*c`, `a*`},
				{`(a)(?=(b))`, `.`}, {`ab|cd`, `(?<n>a)`}, {`(?<=(a))b`, `b`},
			}
			ops := []string{"ms", "mr", "fs", "fa", "rp", "rq", "rf", "sp"}
			hists := []string{"ms", "fs", "rp", "sp", "lim", "b:fs", "b:rp", "ms,fs", "fs,ms", "rp,rq", "mr,sp", "lim,fs", "b:ms,ms", "fa,rf", "rf,fa", "r17", "rq,r17"}
			n, hn := 2, 1
			if tier == "thorough" {
				n, hn = 2, 2
			}
			var us []Unit
			k := 0
			for pi, p := range pats {
				for oi, op := range ops {
					for hi, h := range hists {
						k++
						if tier != "thorough" && (pi+oi+hi+seed)%6 != 0 {
							continue
						}
						params := map[string]string{"pattern": p.a, "pattern_b": p.b, "options": "0", "copts": "", "n": itoa(n), "hn": itoa(hn), "op": op, "history": h, "key_extra": op + "/" + h}
						us = append(us, Unit{ID: fmt.Sprintf("C12/%s/%s/after/%s", p.a, op, h), Harness: "history", Params: params})
					}
					// one inductive step from a havocked recycled runner
					if tier == "thorough" || (pi+oi+seed)%2 == 0 {
						for _, h := range []string{"ms", "fs"} {
							params := map[string]string{"pattern": p.a, "pattern_b": p.b, "options": "0", "copts": "", "n": itoa(n), "hn": itoa(hn), "op": op, "history": h, "havoc": "1", "key_extra": op + "/havoc/" + h}
							us = append(us, Unit{ID: fmt.Sprintf("C12/%s/%s/havoc/%s", p.a, op, h), Harness: "history", Params: params})
						}
					}
				}
				if pi == 0 {
					// many capture groups nobody refers to: the bool-only program is much smaller than the full one
					g24 := strings.Repeat(`(.)`, 24)
					for _, c := range [][2]string{{"ms", "fs"}, {"fa", "rp"}, {"mr", "sp"}, {"fs", "ms"}} {
						params := map[string]string{"pattern": g24, "pattern_b": p.b, "options": "0", "copts": "", "n": "1", "hn": "1", "op": c[1], "history": c[0], "pad0": "28", "pad": "28", "key_extra": "g24/" + c[1] + "/" + c[0]}
						us = append(us, Unit{ID: fmt.Sprintf("C12/g24/%s/after/%s", c[1], c[0]), Harness: "history", StepBudget: 60_000_000, Params: params})
					}
				}
				// right-to-left programs: own Replace / Split / find-all paths and buffers
				if pi%2 == 0 || tier == "thorough" {
					for oi, op := range []string{"rp", "sp", "fa", "fs"} {
						for hi, h := range []string{"rp", "fs", "sp"} {
							if tier != "thorough" && (pi/2+oi+hi+seed)%3 != 0 {
								continue
							}
							params := map[string]string{"pattern": p.a, "pattern_b": p.b, "options": itoa(patterns.OptRTL), "copts": "", "n": itoa(n), "hn": itoa(hn), "op": op, "history": h, "key_extra": "rtl/" + op + "/" + h}
							us = append(us, Unit{ID: fmt.Sprintf("C12/%s/rtl/%s/after/%s", p.a, op, h), Harness: "history", Params: params})
						}
					}
				}
				// the Regexp's own earlier call is aborted by its stack limit after inner groups have captured
				if lt := map[string]string{`(a)|b`: "", `(?:(a)|b)*c`: "abababababababababababababababab", `(a*)(b)?`: "", `(?<o>a)+(?<-o>b)+(?(o)(?!))`: "aaaaaaaaaaaaaaaaaaaaaaaaaaaaaaaaaaaaaaaaaaaaaaaaaaaaaaaaaaaab"}[p.a]; lt != "" {
					for _, op := range []string{"fs", "ms", "rp"} {
						params := map[string]string{"pattern": p.a, "pattern_b": p.b, "options": "0", "copts": "", "n": itoa(n), "hn": "0", "op": op, "history": "selflim", "limtext": lt, "key_extra": op + "/selflim"}
						us = append(us, Unit{ID: fmt.Sprintf("C12/%s/%s/after/selflim", p.a, op), Harness: "history", Params: params})
					}
				}
				// sizes crossing the pooled buffer classes (1K runes): history on a large text, then a small one, and vice versa
				for _, cfg := range [][3]string{{"1100", "0", "fs"}, {"0", "1100", "ms"}, {"1100", "1100", "rp"}, {"4200", "0", "fa"}} {
					if tier != "thorough" && pi%3 != 0 {
						continue
					}
					params := map[string]string{"pattern": p.a, "pattern_b": p.b, "options": "0", "copts": "", "n": "1", "hn": "1", "op": "fs", "history": cfg[2], "pad0": cfg[0], "pad": cfg[1], "key_extra": "pad" + cfg[0] + "/" + cfg[1]}
					us = append(us, Unit{ID: fmt.Sprintf("C12/%s/pad%s-%s/%s", p.a, cfg[0], cfg[1], cfg[2]), Harness: "history", StepBudget: 60_000_000, Params: params})
				}
			}
			// histories with timeouts (virtual clock, same harness as C14's real timed matches): a call after one
			// that timed out, an iteration whose caller is slower than the timeout, behave as on a fresh Regexp
			for _, h := range []string{"iterate-slow", "match,iterate-slow", "match,quickmatch", "match,quickmatch,iterate-slow", "quickmatch,idle-most,quickmatch"} {
				us = append(us, Unit{ID: "C12/clock/" + h, Harness: "clock", PathBudget: 4000, StepBudget: 80_000_000,
					Params: map[string]string{"pattern": "clock", "history": h, "period_ns": "100000000", "jitter_ns": "0", "ddom": "200000000", "waitdom": "0", "waitconcrete": "1", "poll_cost_ns": "200000",
						"preempt": "0", "key_extra": "clock/" + h, "interp_replay": "1"}})
			}
			return us
		},
		Rule: "For each (pattern pair, final call, history): (1) histories of <= 2 earlier calls (bool, find+iterate, find-all, Replace with two replacement patterns, ReplaceFunc, Split, a match that hits the stack limit, calls on another Regexp sharing the global pools) on symbolic texts, the modelled sync.Pool always handing back the most recently returned runner/buffer; (2) one inductive step: after a call the pooled runner's stacks, crawl, positions, code position and retained match arrays are replaced by fresh solver variables (havoc) under the representation invariant; then the final call on a symbolic text; on every feasible path its result equals the same call on a never-used Regexp compiled from the same pattern.",
		Witnesses: []string{"havoc", "havoc-runmatch", "history-hit-limit", "history-hit-own-limit", "history-cache-overflow", "end"},
	})
}

// ---------------------------------------------------------------- C11, C14

func init() {
	register(&propSpec{
		ID: "C11",
		Build: func(tier string, seed int) []Unit {
			pats := []struct{ a, b string }{{`(a)|b`, `\w+`}, {`a+b`, `(a)(b)`}, {`(?<o>a)+(?<-o>b)+(?(o)(?!))`, `a`}, {`\b\w`, `x|y`}, {`(a*)(b)?`, `[ab]+`}}
			mixes := []string{"ms,ms", "ms,fs", "fs,fs", "fa,ms", "rp,rq", "rp,rp", "sp,ms", "rf,fs", "ms,b:ms", "rp,b:rp", "fs,b:fa", "mr,mr"}
			n, pre := 1, 2
			if tier == "thorough" {
				// every pattern x mix combination and three-goroutine mixes, at the quick tier's text size and
				// pre-emption bound (two symbolic runes per goroutine or three pre-emptions exhaust the path budget
				// of most units: tried, 22 of 40 units undecided)
				mixes = append(mixes, "ms,fs,rp", "rp,rq,b:rp", "fs,fs,fs")
			}
			var us []Unit
			for pi, p := range pats {
				for mi, mx := range mixes {
					if pi == 0 && mi == 0 {
						// timed matches from two goroutines: the process-wide timeout clock (same harness as C14's concurrent event)
						for _, h := range []string{"conc2", "timed,conc2"} {
							us = append(us, Unit{ID: "C11/clock/" + h, Harness: "clock", PathBudget: 40000, StepBudget: 30_000_000,
								Params: map[string]string{"pattern": "clock", "history": h, "period_ns": "100000000", "jitter_ns": "0", "ddom": "200000000", "waitdom": "0-600000000", "preempt": "2", "key_extra": "clock/" + h, "interp_replay": "1"}})
						}
					}
					if tier != "thorough" && (pi+mi+seed)%3 != 0 {
						continue
					}
					us = append(us, Unit{ID: fmt.Sprintf("C11/%s/%s", p.a, mx), Harness: "conc", PathBudget: 30000,
						Params: map[string]string{"pattern": p.a, "pattern_b": p.b, "options": "0", "copts": "", "n": itoa(n), "ops": mx, "preempt": itoa(pre), "key_extra": mx, "interp_replay": "1"}})
				}
				if pi == 0 {
					// many capture groups nobody refers to (the bool-only program is much smaller than the full one)
					// on a text long enough for all of them to capture
					g24 := strings.Repeat(`(\w)`, 24)
					for _, mx := range []string{"ms,fs", "fa,rp", "ms,sp"} {
						us = append(us, Unit{ID: fmt.Sprintf("C11/g24/%s", mx), Harness: "conc", PathBudget: 30000, StepBudget: 30_000_000,
							Params: map[string]string{"pattern": g24, "pattern_b": p.b, "options": "0", "copts": "", "n": "1", "ops": mx, "preempt": itoa(pre), "text": "abcdefghijklmnopqrstuvwxy", "key_extra": "g24/" + mx, "interp_replay": "1"}})
					}
				}
				// right-to-left programs take their own Replace / Split / find-all code paths (own buffers)
				for mi, mx := range []string{"rp,ms", "sp,fa", "rp,rq", "fs,rp"} {
					if tier != "thorough" && (pi+seed)%4 != mi {
						continue
					}
					us = append(us, Unit{ID: fmt.Sprintf("C11/%s/rtl/%s", p.a, mx), Harness: "conc", PathBudget: 30000,
						Params: map[string]string{"pattern": p.a, "pattern_b": p.b, "options": itoa(patterns.OptRTL), "copts": "", "n": itoa(n), "ops": mx, "preempt": itoa(pre), "key_extra": "rtl/" + mx, "interp_replay": "1"}})
				}
			}
			return us
		},
		Rule: "For each (pattern pair, call mix): one goroutine per call (bool, find+iterate, find-all, Replace with distinct replacement patterns, ReplaceFunc, Split; on a shared Regexp and on a second Regexp sharing the global pools) on symbolic ASCII texts; the goroutines are coroutines of the interpreter, the scheduler's choice at every synchronisation operation (sync.Pool Get/Put, Mutex Lock/Unlock, sync/atomic, go, exit) is a solver decision, all interleavings up to the pre-emption bound are explored; on each, every call's result equals the result of the same call alone on an unused Regexp, and a vector-clock access log over every load/store reports unordered conflicting accesses.",
		Witnesses: []string{"end", "concurrent-deadlines"},
		Assumptions: []string{"interleavings at synchronisation granularity only (segments free of synchronisation run atomically; covered only through the absence of unordered conflicting accesses in the access log); sync.Pool hands back the most recently returned object; at most 2 (quick) / 3 (thorough) pre-emptions; 2-3 goroutines"},
	})
	register(&propSpec{
		ID: "C14",
		Build: func(tier string, seed int) []Unit {
			// (1) concrete timeout, no sleep jitter: the symbolic quantities are the instants at which the matcher
			// polls its deadline (one per timed event); the clock goroutine's own loop is then concrete, so long
			// histories and the 1 ms period (a thousand ticks per idle second) stay cheap
			hists := []string{"timed", "conc2", "timed,conc2", "quick", "timed,timed", "timed,idle-long,timed", "timed,idle-verylong,timed", "idle-short,timed", "timed,stop,timed",
				"quick,idle-long,quick", "stop,timed", "timed,idle-long,quick", "timed,stop,idle-verylong,timed", "quick,idle-verylong,timed"}
			if tier == "thorough" {
				hists = append(hists, "timed,timed,timed", "timed,idle-long,timed,idle-long,quick", "quick,stop,quick,timed", "timed,idle-short,timed,stop", "timed,idle-verylong,timed,idle-verylong,timed")
			}
			var us []Unit
			for hi, h := range hists {
				for ci, cfg := range []struct {
					period, ddom string
					p, k         int64
				}{
					{"100000000", "200000000", 100000000, 6},
					{"100000000", "230000001", 100000000, 7},
					{"1000000", "5000000", 1000000, 10},
					{"1000000", "7300001", 1000000, 12},
				} {
					// polling instants: around every tick of the clock up to past the latest allowed firing time
					var ws, ws0 []string
					for k := int64(0); k <= cfg.k; k++ {
						ws = append(ws, itoa(int(k*cfg.p)), itoa(int(k*cfg.p+1)), itoa(int(k*cfg.p+cfg.p/2)), itoa(int((k+1)*cfg.p-1)))
						if k%3 == 0 {
							ws0 = append(ws0, itoa(int(k*cfg.p+cfg.p/2)))
						}
					}
					lastTimed := -1
					for ei, ev := range strings.Split(h, ",") {
						if ev == "timed" {
							lastTimed = ei
						}
					}
					if ci%2 == 1 && tier != "thorough" && hi%3 != 0 {
						continue // the second (odd) timeout value: every third history in the quick tier
					}
					pre := "0"
					if hi == 0 && ci == 0 || hi == 1 || tier == "thorough" && hi < 5 {
						pre = "1" // pre-emptions of the main goroutine at its synchronisation operations
					}
					if strings.Contains(h, "conc2") {
						if ci >= 2 {
							continue // the concurrent event runs 1.5 s of virtual time: only with the 100 ms period
						}
						pre = "2" // the schedule of the two deadline makers is what is explored here
					}
					us = append(us, Unit{ID: fmt.Sprintf("C14/%s/p%s/d%s/pre%s", h, cfg.period, cfg.ddom, pre), Harness: "clock", PathBudget: 40000, StepBudget: 60_000_000,
						Params: map[string]string{"pattern": "clock", "history": h, "period_ns": cfg.period, "jitter_ns": "0", "ddom": cfg.ddom, "waitdom": strings.Join(ws, ","), "waitdom_first": strings.Join(ws0, ","),
							"last_timed": itoa(lastTimed), "waitconcrete": "1", "preempt": pre, "key_extra": h + "/" + cfg.period + "/" + cfg.ddom, "interp_replay": "1"}})
				}
			}
			// (1b) real timed matches through Runner.startTimeoutWatch / CheckTimeout: a catastrophic pattern whose
			// every deadline poll costs a thousandth of the timeout in virtual time (a quick match stays far below the timeout, the catastrophic one needs several thousand polls); concrete times throughout
			for hi, h := range []string{"match", "quickmatch", "quickmatch,idle-most,match", "quickmatch,stop,match", "match,idle-verylong,match", "quickmatch,quickmatch,match",
				"match,match", "iterate-slow", "match,iterate-slow", "quickmatch,idle-short,match", "timed,match", "match,stop,idle-verylong,quickmatch,match"} {
				for ci, cfg := range []struct{ period, d, poll string }{{"100000000", "200000000", "200000"}, {"1000000", "5000000", "5000"}} {
					if ci == 1 && tier != "thorough" && hi%2 == 1 {
						continue
					}
					us = append(us, Unit{ID: fmt.Sprintf("C14/real/%s/p%s", h, cfg.period), Harness: "clock", PathBudget: 4000, StepBudget: 80_000_000,
						Params: map[string]string{"pattern": "clock", "history": h, "period_ns": cfg.period, "jitter_ns": "0", "ddom": cfg.d, "waitdom": "0", "waitconcrete": "1", "poll_cost_ns": cfg.poll,
							"preempt": "0", "key_extra": "real/" + h + "/" + cfg.period, "interp_replay": "1"}})
				}
			}
			// (2) the timeout itself a solver variable and every sleep late by a symbolic jitter of up to 1 ms:
			// short histories only (each tick adds a 64-bit variable to every later instant)
			for _, h := range []string{"timed", "quick", "stop,timed", "idle-short,timed"} {
				pre := "0"
				if h == "timed" {
					pre = "1"
				}
				us = append(us, Unit{ID: fmt.Sprintf("C14/%s/p100000000/dsym/pre%s", h, pre), Harness: "clock", PathBudget: 40000, StepBudget: 30_000_000,
					Params: map[string]string{"pattern": "clock", "history": h, "period_ns": "100000000", "jitter_ns": "1000000", "ddom": "150000000-250000000", "waitdom": "0-600000000", "preempt": pre, "key_extra": h + "/dsym", "interp_replay": "1"}})
			}
			return us
		},
		Rule: "The real makeDeadline / extendClock / runClock / stopClock / reached / durationToTicks are executed with the clock goroutine as a coroutine and a virtual clock: time.Now/Since read a symbolic instant, time.Sleep(p) resumes at a symbolic instant in [t+p, t+p+J]; the timeout d and every waiting time are solver variables in stated ranges; histories of timed matches, quick matches, idle gaps shorter/longer than the timeout, StopTimeoutClock; on every feasible path: a deadline reported reached implies elapsed >= d - (p + J + 2 ticks), not reached implies elapsed < d + 3p + 2J + 2 ticks, a quick match never sees a timeout, the clock goroutine has exited after the last deadline + 1 s + slop and is restarted by the next deadline.",
		Witnesses: []string{"timeout-fired", "no-timeout", "real-match-timed-out", "end"},
		Assumptions: []string{"virtual time: code between two Sleep calls takes no time; scheduling jitter of a sleeper is at most J = 1 ms; the matcher is replaced by polling reached() at an arbitrary later instant"},
	})
}
