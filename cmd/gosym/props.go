package main

import (
	"fmt"
	"sort"
	"strconv"

	"verif/patterns"
)

// ---------------------------------------------------------------- pattern sets

type patSet struct {
	pats []patterns.Pat
}

func dedup(ps []patterns.Pat) []patterns.Pat {
	seen := map[string]bool{}
	var out []patterns.Pat
	for _, p := range ps {
		if !seen[p.Text] {
			seen[p.Text] = true
			out = append(out, p)
		}
	}
	return out
}

func enumPats(tier string, seed int) []patterns.Pat {
	if tier == "thorough" {
		return patterns.Enum(4, 6, seed, false)
	}
	return patterns.Enum(3, 1, seed, false)
}

func itoa(i int) string { return strconv.Itoa(i) }

func unitsFor(prop, harness string, p patterns.Pat, options int, copts string, maxN int, extra map[string]string, needAST bool) []Unit {
	text := p.Text
	var ast *patterns.Node
	ng := 0
	if needAST {
		var err error
		if options&patterns.OptX != 0 {
			a0, _, err0 := patterns.Parse(text, options&^patterns.OptX)
			if err0 != nil {
				return nil
			}
			text = a0.Print(true)
		}
		ast, ng, err = patterns.Parse(text, options)
		if err != nil {
			return nil
		}
	}
	var us []Unit
	for n := 0; n <= maxN; n++ {
		params := map[string]string{"pattern": text, "options": itoa(options), "copts": copts, "n": itoa(n)}
		if ast != nil {
			params["ast"] = ast.Sexpr()
			params["ngroups"] = itoa(ng)
			anyi := 0
			ast.Walk(func(m *patterns.Node) {
				if m.F&patterns.FI != 0 {
					anyi = 1
				}
			})
			params["anyi"] = itoa(anyi)
		}
		for k, v := range extra {
			params[k] = v
		}
		us = append(us, Unit{ID: fmt.Sprintf("%s/%s/o%d%s/n%d", prop, text, options, copts, n), Harness: harness, Params: params})
	}
	return us
}

func sortedPats(ps []patterns.Pat) []patterns.Pat {
	sort.SliceStable(ps, func(i, j int) bool { return ps[i].Text < ps[j].Text })
	return ps
}

// ---------------------------------------------------------------- C01 / C15

func inC01Fragment(p patterns.Pat, options int) bool {
	a, _, err := patterns.Parse(p.Text, options&^patterns.OptX)
	if err != nil {
		return false
	}
	if !a.InFragmentC01() {
		return false
	}
	ok := true
	a.Walk(func(n *patterns.Node) {
		// \b under RE2 is documented as ASCII in Go's regexp but kept Unicode here (C06 finding): not part of C01
		if options&patterns.OptRE2 != 0 && (n.K == patterns.WordB || n.K == patterns.NWordB) {
			ok = false
		}
	})
	return ok
}

var c01OptionSets = []int{0, patterns.OptI, patterns.OptM, patterns.OptS, patterns.OptN, patterns.OptX, patterns.OptRE2, patterns.OptI | patterns.OptM | patterns.OptS}

func buildSpecUnits(prop string, rtl bool) func(tier string, seed int) []Unit {
	return func(tier string, seed int) []Unit {
		ps := dedup(append(patterns.ShapePats(), enumPats(tier, seed)...))
		maxN := 4
		if tier == "thorough" {
			maxN = 5
		}
		var us []Unit
		for i, p := range ps {
			var sets []int
			if tier == "thorough" {
				sets = c01OptionSets
			} else {
				sets = []int{0, c01OptionSets[1+(i+seed)%(len(c01OptionSets)-1)]}
			}
			for _, o := range sets {
				if rtl {
					if o&(patterns.OptN|patterns.OptX|patterns.OptRE2) != 0 {
						continue
					}
					o |= patterns.OptRTL
				}
				if !inC01Fragment(p, o) {
					continue
				}
				us = append(us, unitsFor(prop, "spec", p, o, "", maxN, nil, true)...)
			}
		}
		return us
	}
}

func init() {
	register(&propSpec{
		ID:    "C01",
		Build: buildSpecUnits("C01", false),
		Rule: "For each enumerated (pattern, option set, text length n): the text is n symbolic runes and the start offset a symbolic int; every feasible path of " +
			"FindRunesMatchStartingAt + the reference matcher is explored and snapshot equality (index, length, every group's capture list) is asserted on each.",
		Witnesses:   []string{"match", "nomatch", "end"},
		Assumptions: []string{"reference semantics = /verif/harness/regexp2/spec.go (DESIGN.md App. B/E); under IgnoreCase text runes are restricted to caseless runes and plain upper/lower pairs"},
		Bounds: func(tier string) map[string]any {
			if tier == "thorough" {
				return map[string]any{"text_runes_max": 5, "rune_domain": "U+0000-U+10FFFF", "option_sets": 8, "patterns": "shape library + Enum(size<=4, 6 per signature)"}
			}
			return map[string]any{"text_runes_max": 4, "rune_domain": "D_q", "option_sets": "2 per pattern of 8", "patterns": "shape library + Enum(size<=3, 1 per signature)"}
		},
	})
	register(&propSpec{
		ID:    "C15",
		Build: buildSpecUnits("C15", true),
		Rule: "As C01 with RightToLeft compiled in and the reference matcher run with its direction flag: for each (pattern, options, n) all feasible paths over n symbolic runes and a symbolic start offset.",
		Witnesses:   []string{"match", "nomatch", "end"},
		Assumptions: []string{"reference semantics = /verif/harness/regexp2/spec.go with dir=-1"},
	})
	register(&propSpec{
		ID: "C03",
		Build: func(tier string, seed int) []Unit {
			ps := dedup(append(patterns.ShapePats(), enumPats(tier, seed)...))
			maxN := 5
			if tier == "thorough" {
				maxN = 6
			}
			var us []Unit
			for i, p := range ps {
				for _, cfg := range []struct {
					o  int
					co string
				}{{0, ""}, {0, "g"}, {patterns.OptRTL, ""}, {patterns.OptI, ""}} {
					if tier != "thorough" && cfg.o != 0 && (i+seed)%3 != 0 {
						continue
					}
					if tier != "thorough" && cfg.co != "" && (i+seed)%2 != 0 {
						continue
					}
					us = append(us, unitsFor("C03", "accel", p, cfg.o, cfg.co, maxN, nil, false)...)
				}
			}
			return us
		},
		Rule:      "For each (pattern, options, code-gen flag, n): n symbolic runes, symbolic start offset; every feasible path of the real find call and of a naive scan of the same compiled program (no candidate finder, no prefix filter, no length cut-off, bump by one) is explored and their snapshots are asserted equal.",
		Witnesses: []string{"match", "nomatch", "match-after-skip", "end"},
	})
}
