package main

import (
	"fmt"
	"sort"
	"strconv"

	"verif/patterns"
)

// ---------------------------------------------------------------- pattern sets

type patSet struct {
	pats []patterns.Pat
}

func dedup(ps []patterns.Pat) []patterns.Pat {
	seen := map[string]bool{}
	var out []patterns.Pat
	for _, p := range ps {
		if !seen[p.Text] {
			seen[p.Text] = true
			out = append(out, p)
		}
	}
	return out
}

func enumPats(tier string, seed int) []patterns.Pat {
	if tier == "thorough" {
		return patterns.Enum(4, 6, seed, false)
	}
	return patterns.Enum(3, 1, seed, false)
}

func itoa(i int) string { return strconv.Itoa(i) }

func unitsFor(prop, harness string, p patterns.Pat, options int, copts string, maxN int, extra map[string]string, needAST bool) []Unit {
	text := p.Text
	var ast *patterns.Node
	ng := 0
	if needAST {
		var err error
		if options&patterns.OptX != 0 {
			a0, _, err0 := patterns.Parse(text, options&^patterns.OptX)
			if err0 != nil {
				return nil
			}
			text = a0.Print(true)
		}
		ast, ng, err = patterns.Parse(text, options)
		if err != nil {
			return nil
		}
	}
	var us []Unit
	for n := 0; n <= maxN; n++ {
		params := map[string]string{"pattern": text, "options": itoa(options), "copts": copts, "n": itoa(n)}
		if ast != nil {
			params["ast"] = ast.Sexpr()
			params["ngroups"] = itoa(ng)
			anyi := 0
			ast.Walk(func(m *patterns.Node) {
				if m.F&patterns.FI != 0 {
					anyi = 1
				}
			})
			params["anyi"] = itoa(anyi)
		}
		for k, v := range extra {
			params[k] = v
		}
		us = append(us, Unit{ID: fmt.Sprintf("%s/%s/o%d%s/n%d", prop, text, options, copts, n), Harness: harness, Params: params})
	}
	return us
}

func sortedPats(ps []patterns.Pat) []patterns.Pat {
	sort.SliceStable(ps, func(i, j int) bool { return ps[i].Text < ps[j].Text })
	return ps
}

// ---------------------------------------------------------------- C01 / C15

func inC01Fragment(p patterns.Pat, options int) bool {
	a, _, err := patterns.Parse(p.Text, options&^patterns.OptX)
	if err != nil {
		return false
	}
	if !a.InFragmentC01() {
		return false
	}
	ok := true
	a.Walk(func(n *patterns.Node) {
		// \b under RE2 is documented as ASCII in Go's regexp but kept Unicode here (C06 finding): not part of C01
		if options&patterns.OptRE2 != 0 && (n.K == patterns.WordB || n.K == patterns.NWordB) {
			ok = false
		}
	})
	return ok
}

var c01OptionSets = []int{0, patterns.OptI, patterns.OptM, patterns.OptS, patterns.OptN, patterns.OptX, patterns.OptRE2, patterns.OptI | patterns.OptM | patterns.OptS}

func buildSpecUnits(prop string, rtl bool) func(tier string, seed int) []Unit {
	return func(tier string, seed int) []Unit {
		ps := dedup(append(patterns.ShapePats(), enumPats(tier, seed)...))
		maxN := 4
		if tier == "thorough" {
			maxN = 5
		}
		var us []Unit
		for i, p := range ps {
			var sets []int
			if tier == "thorough" {
				sets = c01OptionSets
			} else {
				sets = []int{0, c01OptionSets[1+(i+seed)%(len(c01OptionSets)-1)]}
			}
			for _, o := range sets {
				if rtl {
					if o&(patterns.OptN|patterns.OptX|patterns.OptRE2) != 0 {
						continue
					}
					o |= patterns.OptRTL
				}
				if !inC01Fragment(p, o) {
					continue
				}
				us = append(us, unitsFor(prop, "spec", p, o, "", maxN, nil, true)...)
			}
		}
		return us
	}
}

func init() {
	register(&propSpec{
		ID:    "C01",
		Build: buildSpecUnits("C01", false),
		Rule: "For each enumerated (pattern, option set, text length n): the text is n symbolic runes and the start offset a symbolic int; every feasible path of " +
			"FindRunesMatchStartingAt + the reference matcher is explored and snapshot equality (index, length, every group's capture list) is asserted on each.",
		Witnesses:   []string{"match", "nomatch", "end"},
		Assumptions: []string{"reference semantics = /verif/harness/regexp2/spec.go (DESIGN.md App. B/E); under IgnoreCase text runes are restricted to caseless runes and plain upper/lower pairs"},
		Bounds: func(tier string) map[string]any {
			if tier == "thorough" {
				return map[string]any{"text_runes_max": 5, "rune_domain": "U+0000-U+10FFFF", "option_sets": 8, "patterns": "shape library + Enum(size<=4, 6 per signature)"}
			}
			return map[string]any{"text_runes_max": 4, "rune_domain": "D_q", "option_sets": "2 per pattern of 8", "patterns": "shape library + Enum(size<=3, 1 per signature)"}
		},
	})
	register(&propSpec{
		ID:    "C15",
		Build: buildSpecUnits("C15", true),
		Rule: "As C01 with RightToLeft compiled in and the reference matcher run with its direction flag: for each (pattern, options, n) all feasible paths over n symbolic runes and a symbolic start offset.",
		Witnesses:   []string{"match", "nomatch", "end"},
		Assumptions: []string{"reference semantics = /verif/harness/regexp2/spec.go with dir=-1"},
	})
	register(&propSpec{
		ID: "C03",
		Build: func(tier string, seed int) []Unit {
			ps := dedup(append(patterns.ShapePats(), enumPats(tier, seed)...))
			maxN := 5
			if tier == "thorough" {
				maxN = 6
			}
			var us []Unit
			for i, p := range ps {
				for _, cfg := range []struct {
					o  int
					co string
				}{{0, ""}, {0, "g"}, {patterns.OptRTL, ""}, {patterns.OptI, ""}} {
					if tier != "thorough" && cfg.o != 0 && (i+seed)%4 != 0 {
						continue
					}
					if tier != "thorough" && cfg.co != "" && (i+seed)%3 != 0 {
						continue
					}
					mn := maxN
					if p.Source == "enum" {
						mn = maxN - 1 // generated patterns are at most 3-4 atoms wide; the shape library gets the extra rune
					}
					us = append(us, unitsFor("C03", "accel", p, cfg.o, cfg.co, mn, nil, false)...)
				}
			}
			return us
		},
		Rule:      "For each (pattern, options, code-gen flag, n): n symbolic runes, symbolic start offset; every feasible path of the real find call and of a naive scan of the same compiled program (no candidate finder, no prefix filter, no length cut-off, bump by one) is explored and their snapshots are asserted equal.",
		Witnesses: []string{"match", "nomatch", "match-after-skip", "end"},
	})
}

// ---------------------------------------------------------------- C05, C07, C13, C18, C20

func optLetters(o int) string {
	s := ""
	for _, x := range []struct {
		bit int
		c   string
	}{{patterns.OptI, "i"}, {patterns.OptM, "m"}, {patterns.OptS, "s"}, {patterns.OptN, "n"}, {patterns.OptX, "x"}} {
		if o&x.bit != 0 {
			s += x.c
		}
	}
	return s
}

var inlineSubsets = func() []int {
	var out []int
	bits := []int{patterns.OptI, patterns.OptM, patterns.OptS, patterns.OptN, patterns.OptX}
	for m := 0; m < 32; m++ {
		o := 0
		for i, b := range bits {
			if m&(1<<i) != 0 {
				o |= b
			}
		}
		out = append(out, o)
	}
	return out
}()

func flipCase(r rune) rune {
	switch {
	case r >= 'a' && r <= 'z':
		return r - 32
	case r >= 'A' && r <= 'Z':
		return r + 32
	case r >= 0x3b1 && r <= 0x3c9 && r != 0x3c2: // Greek small (not final sigma)
		return r - 32
	case r >= 0x391 && r <= 0x3a9 && r != 0x3a2:
		return r + 32
	case r >= 0x430 && r <= 0x44f: // Cyrillic
		return r - 32
	case r >= 0x410 && r <= 0x42f:
		return r + 32
	case r >= 0xe0 && r <= 0xfe && r != 0xf7: // Latin-1
		return r - 32
	case r >= 0xc0 && r <= 0xde && r != 0xd7:
		return r + 32
	}
	return r
}

// flippedVariants returns pattern texts with the case of up to two literal
// letters / range end-points flipped (printed from the AST).
func flippedVariants(text string, options int, max int) (base string, variants []string) {
	a, _, err := patterns.Parse(text, options)
	if err != nil {
		return "", nil
	}
	base = a.Print(false)
	// collect flippable sites
	type site struct {
		n    *patterns.Node
		item int // -1: literal; else index of range item; end 0/1 encoded in hi
		hi   bool
	}
	var sites []site
	a.Walk(func(n *patterns.Node) {
		if n.K == patterns.Lit && flipCase(n.Ch) != n.Ch {
			sites = append(sites, site{n, -1, false})
		}
		if n.K == patterns.Class {
			for i, it := range n.Items {
				if it.Cat == "" && it.Lo == it.Hi && flipCase(it.Lo) != it.Lo {
					sites = append(sites, site{n, i, false})
				}
			}
		}
	})
	apply := func(s site) {
		if s.item < 0 {
			s.n.Ch = flipCase(s.n.Ch)
		} else {
			c := flipCase(s.n.Items[s.item].Lo)
			s.n.Items[s.item].Lo, s.n.Items[s.item].Hi = c, c
		}
	}
	seen := map[string]bool{base: true}
	for i := range sites {
		apply(sites[i])
		if t := a.Print(false); !seen[t] {
			seen[t] = true
			variants = append(variants, t)
		}
		for j := i + 1; j < len(sites) && len(variants) < max; j++ {
			apply(sites[j])
			if t := a.Print(false); !seen[t] {
				seen[t] = true
				variants = append(variants, t)
			}
			apply(sites[j])
		}
		apply(sites[i])
		if len(variants) >= max {
			break
		}
	}
	return base, variants
}

func init() {
	register(&propSpec{
		ID: "C05",
		Build: func(tier string, seed int) []Unit {
			ps := dedup(append(patterns.ShapesOf("autoatomic", "endbacktrack", "alternation", "coalesce", "bumpalong", "opcodes", "landmark", "case"), enumPats(tier, seed)...))
			maxN := 4
			sets := []int{0, patterns.OptI, patterns.OptM, patterns.OptS, patterns.OptRE2}
			if tier == "thorough" {
				maxN = 5
			}
			var us []Unit
			for i, p := range ps {
				for k, o := range sets {
					if tier != "thorough" && k != 0 && k != 1+(i+seed)%4 {
						continue
					}
					us = append(us, unitsFor("C05", "rewrite", p, o, "", maxN, nil, false)...)
				}
			}
			return us
		},
		Rule:      "For each (pattern, options, n): the pattern is compiled twice inside the interpreter, once as is and once with the rewrite passes (auto-atomic loops, ending-backtracking removal, final optimisation incl. bump-along, alternation prefix factoring and branch reordering) intercepted; n symbolic runes and a symbolic start offset; every feasible path of a scan of both programs is explored and the snapshots asserted equal. Units whose two programs are identical are counted as trivial.",
		Witnesses: []string{"programs-differ", "match", "nomatch", "end"},
		Assumptions: []string{"interception set norewrite = {findAndMakeLoopsAtomic, eliminateEndingBacktracking -> no-op; finalOptimize, extractCommonPrefixText, extractCommonPrefixOneNotoneSet -> identity; findBranchOneOrMultiStart -> nil}; other reductions are covered by C01, not here"},
	})
	register(&propSpec{
		ID: "C07",
		Build: func(tier string, seed int) []Unit {
			ps := dedup(append(patterns.ShapesOf("zerowidth", "anchors", "opcodes", "bumpalong", "classes"), enumPats(tier, seed)...))
			maxN := 4
			if tier == "thorough" {
				maxN = 5
			}
			var us []Unit
			for i, p := range ps {
				us = append(us, unitsFor("C07", "iter", p, 0, "", maxN, nil, false)...)
				if tier == "thorough" || (i+seed)%2 == 0 {
					us = append(us, unitsFor("C07", "iter", p, patterns.OptRTL, "", maxN, nil, false)...)
				}
			}
			return us
		},
		Rule:      "For each (pattern, direction, n): n symbolic runes; FindRunesMatch + FindNextMatch are iterated to exhaustion on every feasible path; order, disjointness, no repeated empty match, at most n+1 matches, equality of each match with an independent naive scan from the previous end (\\G origin = that end), and FindAllRunesIndex(t,k) for k in -1..3 against the filtered sequence are asserted.",
		Witnesses: []string{"some-match", "several-matches", "end"},
	})
	register(&propSpec{
		ID: "C13",
		Build: func(tier string, seed int) []Unit {
			ps := dedup(append(patterns.ShapesOf("stacklimit", "opcodes", "alternation"), patterns.ShapesOf("zerowidth")...))
			maxN, lmax := 2, 72
			ldom, l2dom := "0-34,62-66,100", "1-40,63-70,128,100000"
			if tier == "thorough" {
				maxN, lmax = 3, 140
				ldom, l2dom = "0-140,1000", "1-150,2000,100000"
				ps = dedup(append(ps, enumPats("quick", seed)...))
			}
			var us []Unit
			for _, p := range ps {
				us = append(us, unitsFor("C13", "limit", p, 0, "", maxN, map[string]string{"lmax": itoa(lmax), "ldom": ldom, "l2dom": l2dom}, false)...)
			}
			return us
		},
		Rule:      "For each (pattern, n): n symbolic runes and the limit L (and a second L2 > L) as 64-bit solver variables in [0, lmax]; all feasible paths: result with limit L is ErrBacktrackingStackLimit or equals the unlimited result; pooled stack capacity <= L; no Go panic; the Regexp gives the reference result afterwards; success at L implies the same success at L2.",
		Witnesses: []string{"limit-hit", "within-limit", "end"},
		Bounds: func(tier string) map[string]any {
			if tier == "thorough" {
				return map[string]any{"text_runes_max": 4, "L": "[0,140]"}
			}
			return map[string]any{"text_runes_max": 3, "L": "[0,72]"}
		},
	})
	register(&propSpec{
		ID: "C18",
		Build: func(tier string, seed int) []Unit {
			ps := dedup(append(patterns.ShapesOf("anchors", "classes", "case", "groups", "opcodes", "alternation"), enumPats(tier, seed)...))
			maxN := 3
			per := 3
			if tier == "thorough" {
				maxN, per = 4, 32
			}
			var us []Unit
			for i, p := range ps {
				a0, _, err := patterns.Parse(p.Text, 0)
				if err != nil {
					continue
				}
				for k := 0; k < per; k++ {
					o := inlineSubsets[(i*7+k*11+seed)%32]
					if per == 32 {
						o = inlineSubsets[k]
					}
					if o == 0 {
						continue
					}
					body := p.Text
					if o&patterns.OptX != 0 {
						body = a0.Print(true)
					}
					ast, ng, err := patterns.Parse(body, o)
					if err != nil || !ast.InFragmentC01() {
						continue
					}
					letters := optLetters(o)
					extra := map[string]string{"pattern_inline": "(?" + letters + ")" + body, "pattern_wrap": "(?" + letters + ":" + body + ")", "options_rest": "0",
						"ast": ast.Sexpr(), "ngroups": itoa(ng)}
					anyi := "0"
					if o&patterns.OptI != 0 {
						anyi = "1"
					}
					extra["anyi"] = anyi
					for n := 0; n <= maxN; n++ {
						params := map[string]string{"pattern": body, "options": itoa(o), "copts": "", "n": itoa(n)}
						for kk, v := range extra {
							params[kk] = v
						}
						us = append(us, Unit{ID: fmt.Sprintf("C18/%s/o%d/n%d", body, o, n), Harness: "spell", Params: params})
					}
				}
			}
			// nested on/off groups against the reference scoping
			for _, p := range patterns.ShapesOf("options") {
				ast, ng, err := patterns.Parse(p.Text, 0)
				if err != nil {
					continue
				}
				for n := 0; n <= maxN; n++ {
					us = append(us, Unit{ID: fmt.Sprintf("C18/%s/nested/n%d", p.Text, n), Harness: "spell", Params: map[string]string{"pattern": p.Text, "pattern_inline": p.Text, "pattern_wrap": p.Text,
						"options": "0", "options_rest": "0", "copts": "", "n": itoa(n), "ast": ast.Sexpr(), "ngroups": itoa(ng), "anyi": "1"}})
				}
			}
			return us
		},
		Rule:      "For each (pattern, option subset O of {i,m,s,n,x}, n): the pattern compiled with O as compile option, as leading (?O) and as wrapping (?O:...) (three real compiles inside the interpreter); n symbolic runes; all feasible paths; the three snapshots are asserted equal and equal to the reference matcher run on the independent parse with O applied (option scoping incl. nested (?O)...(?-O)).",
		Witnesses: []string{"match", "nomatch", "spec-leg", "end"},
	})
	register(&propSpec{
		ID: "C20",
		Build: func(tier string, seed int) []Unit {
			ps := dedup(append(patterns.ShapesOf("case", "findmode-prefix", "findmode-set", "classes", "alternation", "autoatomic", "opcodes"), enumPats(tier, seed)...))
			maxN, maxVar := 3, 2
			if tier == "thorough" {
				maxN, maxVar = 4, 6
			}
			var us []Unit
			for _, p := range ps {
				base, vars := flippedVariants(p.Text, patterns.OptI, maxVar)
				if base == "" {
					continue
				}
				if len(vars) == 0 {
					vars = []string{""}
				}
				for _, v := range vars {
					for n := 0; n <= maxN; n++ {
						dom := "case"
						if tier == "thorough" {
							dom = "quick"
						}
						us = append(us, Unit{ID: fmt.Sprintf("C20/%s/%s/n%d", base, v, n), Harness: "icase", Domain: dom, Params: map[string]string{"pattern": base, "pattern_flipped": v,
							"options": itoa(patterns.OptI), "copts": "", "n": itoa(n), "key_extra": v}})
					}
				}
			}
			return us
		},
		Rule:      "For each (IgnoreCase pattern, pattern variant with up to two literal letters / class members case-flipped, n): n symbolic runes restricted to caseless runes and plain upper/lower pairs, plus a symbolic flip vector f in {0,1}^n with t'[i] = f[i] ? partner(t[i]) : t[i]; all feasible paths; match position and length on t, on t' and for the flipped pattern on t are asserted equal.",
		Witnesses: []string{"match", "nomatch", "end"},
	})
}

func init() {
	register(&propSpec{
		ID: "C04",
		Build: func(tier string, seed int) []Unit {
			ps := dedup(append(patterns.ShapePats(), enumPats(tier, seed)...))
			maxN := 4
			if tier == "thorough" {
				maxN = 5
			}
			var us []Unit
			for i, p := range ps {
				for k, cfg := range []struct {
					o  int
					co string
				}{{0, ""}, {0, "g"}, {patterns.OptRTL, ""}, {patterns.OptI, ""}, {patterns.OptI, "g"}} {
					if tier != "thorough" && k > 0 && (i+seed)%4 != k-1 {
						continue
					}
					us = append(us, unitsFor("C04", "facts", p, cfg.o, cfg.co, maxN, nil, false)...)
				}
			}
			return us
		},
		Rule:      "For each (pattern, options, code-gen flag, n): n symbolic runes; the compiled program is attempted at every position p (single-position attempt, no scanning); on every feasible path with a match at p every published fact (MinRequiredLength as remaining-length bound, MaxPossibleLength, leading/trailing anchor, LeadingPrefix(es), FixedDistanceSets/Char/String, LiteralAfterLoop, landmark chain as a necessary condition, FcPrefix, BmPrefix, Anchors bits) is asserted at p.",
		Witnesses: []string{"match", "end", "fact:FcPrefix", "fact:FixedDistanceSets", "fact:LeadingPrefix"},
	})
}

// ---------------------------------------------------------------- C17

type grpKind struct {
	open string // text after '('
	name string // "" unnamed, else name or number
}

// groupPatterns enumerates patterns mixing unnamed, named, explicitly numbered and duplicate-named groups.
func groupPatterns(tier string) []string {
	kinds := []grpKind{{"", ""}, {"?<x>", "x"}, {"?<y>", "y"}, {"?<3>", "3"}, {"?<7>", "7"}, {"?<x1>", "x1"}, {"?'q'", "q"}}
	bodies := []string{"a", "b", "c", "[ab]"}
	var out []string
	seen := map[string]bool{}
	add := func(s string) {
		if !seen[s] {
			seen[s] = true
			out = append(out, s)
		}
	}
	g := func(k grpKind, body string) string { return "(" + k.open + body + ")" }
	for i, k1 := range kinds {
		add(g(k1, "a"))
		for j, k2 := range kinds {
			b1, b2 := bodies[i%4], bodies[(j+1)%4]
			add(g(k1, b1) + g(k2, b2))
			add(g(k1, b1) + "|" + g(k2, b2))
			add(g(k1, b1+g(k2, b2)))
			add(g(k1, b1) + "?" + g(k2, b2))
			if tier == "thorough" {
				for l, k3 := range kinds {
					b3 := bodies[(l+2)%4]
					add(g(k1, b1) + g(k2, b2) + g(k3, b3))
					add(g(k1, b1+g(k2, b2)) + g(k3, b3))
					add(g(k1, b1) + "|" + g(k2, b2) + g(k3, b3))
				}
			} else if (i+j)%2 == 0 {
				k3 := kinds[(i+j+1)%len(kinds)]
				add(g(k1, b1) + g(k2, b2) + g(k3, "c"))
				add(g(k1, b1+g(k2, b2)) + g(k3, "c"))
			}
		}
	}
	return out
}

// expectedGroups computes the documented numbering from the independent parse.
// order=true: MaintainCaptureOrder (pure pattern order).
func expectedGroups(text string, options int, order bool) (nums []int, names []string, firstNamed string, firstNamedNum int, ok bool) {
	ast, _, err := patterns.Parse(text, options)
	if err != nil {
		return nil, nil, "", 0, false
	}
	type g struct {
		num  int
		name string
	}
	var gs []g
	seen := map[int]bool{}
	if order {
		// renumber in order of opening parenthesis; duplicate names share a slot
		next := 1
		byName := map[string]int{}
		ast.Walk(func(n *patterns.Node) {
			if n.K != patterns.Cap {
				return
			}
			if n.Name == "" {
				n.G = next
				next++
			} else if v, ok := byName[n.Name]; ok {
				n.G = v
			} else {
				n.G = next
				byName[n.Name] = next
				next++
			}
		})
	}
	ast.Walk(func(n *patterns.Node) {
		if n.K == patterns.Cap && !seen[n.G] {
			seen[n.G] = true
			name := n.Name
			if name == "" {
				name = itoa(n.G)
			}
			gs = append(gs, g{n.G, name})
			if n.Name != "" && firstNamed == "" {
				if _, err := strconv.Atoi(n.Name); err != nil {
					firstNamed, firstNamedNum = n.Name, n.G
				}
			}
		}
	})
	sort.Slice(gs, func(i, j int) bool { return gs[i].num < gs[j].num })
	nums, names = []int{0}, []string{"0"}
	for _, x := range gs {
		nums = append(nums, x.num)
		names = append(names, x.name)
	}
	return nums, names, firstNamed, firstNamedNum, true
}

func joinInts(xs []int) string {
	s := ""
	for i, x := range xs {
		if i > 0 {
			s += ","
		}
		s += itoa(x)
	}
	return s
}

func joinStrs(xs []string) string {
	s := ""
	for i, x := range xs {
		if i > 0 {
			s += ","
		}
		s += x
	}
	return s
}

func init() {
	register(&propSpec{
		ID: "C17",
		Build: func(tier string, seed int) []Unit {
			maxN := 2
			if tier == "thorough" {
				maxN = 3
			}
			var us []Unit
			for i, p := range groupPatterns(tier) {
				for k, cfg := range []struct {
					o  int
					co string
				}{{0, ""}, {0, "o"}, {patterns.OptRE2, ""}, {patterns.OptN, ""}, {patterns.OptE, ""}} {
					if tier != "thorough" && k > 0 && (i+seed)%4 != k-1 {
						continue
					}
					order := cfg.co == "o" || cfg.o&patterns.OptE != 0
					if order && (containsDigitName(p)) {
						continue // explicit numbers under MaintainCaptureOrder: undocumented interaction, not generated
					}
					nums, names, fn, fnum, ok := expectedGroups(p, cfg.o, order)
					if !ok {
						continue
					}
					if cfg.o&patterns.OptE != 0 {
						// documented: in ECMAScript mode unnamed groups have no name
						for i, nm := range names {
							if nm == itoa(nums[i]) {
								names[i] = ""
							}
						}
					}
					extra := map[string]string{"nums": joinInts(nums), "names": joinStrs(names)}
					if fn != "" {
						extra["pattern_byname"] = "(?:" + p + `)\k<` + fn + `>`
						extra["pattern_bynumber"] = "(?:" + p + `)\` + itoa(fnum)
						if fnum > 9 {
							delete(extra, "pattern_byname")
							delete(extra, "pattern_bynumber")
						}
					}
					us = append(us, unitsFor("C17", "groups", patterns.Pat{Text: p}, cfg.o, cfg.co, maxN, extra, false)...)
				}
			}
			return us
		},
		Rule:      "For each (group-mix pattern, mode in {default, MaintainCaptureOrder, RE2, ExplicitCapture, ECMAScript}, n): the expected numbering is computed from an independent parse by the documented rule; GetGroupNumbers/Names, both look-ups and unknown look-ups are asserted (concrete); with n symbolic runes, on every feasible path the order and names of Match.Groups, GroupByName/Number, and equality of the pattern followed by \\k<name> vs \\<number> are asserted.",
		Witnesses: []string{"match", "nomatch", "backref-leg", "end"},
	})
}

func containsDigitName(p string) bool {
	for i := 0; i+2 < len(p); i++ {
		if p[i] == '?' && p[i+1] == '<' && p[i+2] >= '0' && p[i+2] <= '9' {
			return true
		}
	}
	return false
}

// ---------------------------------------------------------------- C19

func init() {
	register(&propSpec{
		ID: "C19",
		Build: func(tier string, seed int) []Unit {
			var us []Unit
			add := func(n int, dom string) {
				us = append(us, Unit{ID: fmt.Sprintf("C19/roundtrip/%s/n%d", dom, n), Harness: "escape", Domain: dom, PathBudget: 400000,
					Params: map[string]string{"n": itoa(n), "pattern": "roundtrip", "key_extra": dom}})
			}
			add(0, "full")
			add(1, "full")
			add(2, "quick")
			opts := []int{0, patterns.OptX, patterns.OptRE2, patterns.OptE}
			cdom := "quick"
			if tier == "thorough" {
				add(2, "full")
				add(3, "case")
				opts = []int{0, patterns.OptX, patterns.OptM | patterns.OptS, patterns.OptN, patterns.OptRE2, patterns.OptE, patterns.OptX | patterns.OptN | patterns.OptM}
			}
			for _, o := range opts {
				for k := 0; k <= 2; k++ {
					us = append(us, Unit{ID: fmt.Sprintf("C19/compile/o%d/n1/k%d", o, k), Harness: "escapecompile", Domain: cdom, PathBudget: 60000,
						Params: map[string]string{"n": "1", "k": itoa(k), "options": itoa(o), "pattern": "compile"}})
				}
			}
			return us
		},
		Rule:      "s = string of n symbolic Unicode scalar values over all of Unicode (surrogates excluded); every feasible path of Escape and Unescape (incl. strconv.FormatInt and the parser's escape scanner) is explored and Unescape(Escape(s)) == s with nil error is asserted; compile leg: n = 1, the pattern \\A(?:Escape(s))\\z (anchors that ignore a trailing newline would also accept s+newline) goes through the real parser/reducer/writer with the symbolic literal and MatchRunes(u) <=> u == s is asserted for a second symbolic text u of k <= 2 runes under 6 option sets.",
		Witnesses: []string{"escaped", "unchanged", "end"},
	})
}

// ---------------------------------------------------------------- C16

func init() {
	register(&propSpec{
		ID: "C16",
		Build: func(tier string, seed int) []Unit {
			var us []Unit
			for _, m := range []struct {
				mode string
				o    int
			}{{"", 0}, {"i", patterns.OptI}, {"e", patterns.OptE}, {"r", patterns.OptRE2}} {
				for i, c := range patterns.ClassExprs(m.mode, seed, tier == "thorough" && false) {
					for _, co := range []string{"", "b"} {
						if co == "b" && tier != "thorough" && (i+seed)%4 != 0 {
							continue
						}
						us = append(us, Unit{ID: fmt.Sprintf("C16/%s/o%d%s", c.Text, m.o, co), Harness: "class", Domain: "full",
							Params: map[string]string{"pattern": c.Text, "options": itoa(m.o), "copts": co, "ast": c.Sexpr, "nosummary_charin": "1"}})
					}
				}
			}
			return us
		},
		Rule:      "For each class expression of the class grammar (ranges, negation, nested subtraction, shorthand and Unicode category/script escapes, POSIX names under RE2; <= 3 items, depth <= 2) x {none, IgnoreCase, ECMAScript, RE2} x ASCII bitmap on/off: one symbolic rune r over all of U+0000-U+10FFFF (under IgnoreCase: caseless runes and plain upper/lower pairs; class members with ASCII end-points); every feasible path of CharSet.CharIn (not summarised: ASCII bitmap, linear and binary range search, categories, negation, subtraction) is explored and asserted equal to set algebra over the class AST; the same for the single-character, loop and prefix-set uses through MatchRunes.",
		Witnesses: []string{"set", "member", "non-member", "end"},
	})
}

// ---------------------------------------------------------------- C02, C08, C09 (string level)

func stringUnits(prop, harness string, ps []patterns.Pat, cfgs []struct {
	o  int
	co string
}, modes []string, maxN map[string]int, extra map[string]string, thin func(i, k int) bool) []Unit {
	var us []Unit
	for i, p := range ps {
		for k, cfg := range cfgs {
			if thin != nil && !thin(i, k) {
				continue
			}
			for _, mode := range modes {
				for n := 0; n <= maxN[mode]; n++ {
					params := map[string]string{"pattern": p.Text, "options": itoa(cfg.o), "copts": cfg.co, "n": itoa(n), "mode": mode, "key_extra": mode}
					for kk, v := range extra {
						params[kk] = v
					}
					us = append(us, Unit{ID: fmt.Sprintf("%s/%s/o%d%s/%s%d", prop, p.Text, cfg.o, cfg.co, mode, n), Harness: harness, Params: params})
				}
			}
		}
	}
	return us
}

var filterShapes = []string{`(?:ab*){2}`, `(c[ab]){2,}`, `(?:ab){2}c`, `\G{2}ab`, `ab(?<=\Gab)`, `(?(?=\G)a|b)`, `abc`, `ab|cd`, `(?i)abc`, `[ab]c`, `a.c`, `\w+@x`, `a+b`, `x*y`, `(a)(b)?`, `(?<o>a)+(?<-o>b)+(?(o)(?!))`, `é+`, `\p{Lu}\w`, `.`, `(?s).`, `[^a]`, `\b\w`, `^a|b$`, `a*`, `\Ga`, `(?<=a)b`, `a{2}`, `(?:a|ab)c`, `\x{10000}`, `�`, `a\z`}

func init() {
	cfgs := []struct {
		o  int
		co string
	}{{0, ""}, {0, "g"}, {0, "b"}, {patterns.OptRTL, ""}, {patterns.OptI, ""}, {patterns.OptRE2, ""}, {patterns.OptE, ""}}
	register(&propSpec{
		ID: "C02",
		Build: func(tier string, seed int) []Unit {
			var ps []patterns.Pat
			for _, t := range filterShapes {
				ps = append(ps, patterns.FromText(t, 0, "shape:entry"))
			}
			ps = dedup(append(ps, patterns.ShapesOf("findmode-prefix", "findmode-set", "zerowidth", "opcodes", "findmode-literalafterloop")...))
			mx := map[string]int{"s": 3, "b": 3}
			if tier == "thorough" {
				mx = map[string]int{"s": 4, "b": 4}
				ps = dedup(append(ps, enumPats("quick", seed)...))
			}
			return stringUnits("C02", "entry", ps, cfgs, []string{"s", "b"}, mx, nil, func(i, k int) bool {
				return tier == "thorough" || k == 0 || (i+seed)%6 == k-1
			})
		},
		Rule:      "For each (pattern, options, compile options, n): the subject is a string of n symbolic Unicode scalars (mode s) or n raw symbolic bytes incl. invalid UTF-8 (mode b); every feasible path through MatchString, MatchRunes, FindStringMatch, FindRunesMatch, the StartingAt variants, FindNextMatch iteration, FindAllRunesIndex, FindAllStringIndex (rune->byte mapping recomputed by the harness), ReplaceFunc's match enumeration and Split's piece count is explored and their agreement asserted.",
		Witnesses: []string{"match", "nomatch", "end"},
	})
	register(&propSpec{
		ID: "C08",
		Build: func(tier string, seed int) []Unit {
			var ps []patterns.Pat
			for _, t := range []string{`(?<o>a)+(?<-o>b)+(?(o)(?!))`, `(a)|(b)`, `(?<=(a)b)c`, `(a)*`, `((a)|(b))*c`, `(?:(a)b)+`, `(a)(?=(b))`, `(.)\1`, `(é)+`, `(\w)(\W)?`, `.`, `(?s)(.)+`, `(a*)(b*)`, `()`, `(?<x>a)(?<x>b)?`, `�`, `[^a]+`, `(a)?b`} {
				ps = append(ps, patterns.FromText(t, 0, "shape:wellformed"))
			}
			ps = dedup(append(ps, patterns.ShapesOf("opcodes", "groups")...))
			mx := map[string]int{"s": 3, "b": 3}
			if tier == "thorough" {
				mx = map[string]int{"s": 4, "b": 5}
				ps = dedup(append(ps, enumPats("quick", seed)...))
			}
			return stringUnits("C08", "wellformed", ps, cfgs[:4], []string{"s", "b"}, mx, nil, func(i, k int) bool {
				return tier == "thorough" || k == 0 || (i+seed)%3 == k-1
			})
		},
		Rule:      "For each (pattern, options, n): subject = n symbolic scalars or n raw symbolic bytes; all matches are enumerated on every feasible path; every capture of every group lies inside the input, group 0 has one capture equal to the match, the embedded capture is the last capture, String()/Runes() equal the addressed slice, ByteRange() equals the UTF-8 byte span recomputed by the harness from the decode widths (each invalid byte one rune).",
		Witnesses: []string{"match", "group-with-capture", "end"},
	})
	register(&propSpec{
		ID: "C09",
		Build: func(tier string, seed int) []Unit {
			var ps []patterns.Pat
			for _, t := range []string{`a`, `(a)`, `(a)(b)?`, `(?<x>a)|b`, `a*`, `\b`, `(?<2>a)(b)`, `[ab]+`, `(a)|(b)`, `.`, `a|`, `(?<n>.)\k<n>`, `^`, `$`, `(\w)(\w)`} {
				ps = append(ps, patterns.FromText(t, 0, "shape:replace"))
			}
			reps := []string{"<$&>", "$1", "${1}x", "$$", "$`|$'", "$+", "$_", "${x}", "${n}", "$2$1", "x", "$", "$9", "${", "$10", "${2}", ""}
			maxN := 3
			if tier == "thorough" {
				maxN = 4
			}
			var us []Unit
			for i, p := range ps {
				for k, o := range []int{0, patterns.OptRTL} {
					for r, rep := range reps {
						if tier != "thorough" && (i+r+k+seed)%3 != 0 {
							continue
						}
						for n := 0; n <= maxN; n++ {
							us = append(us, Unit{ID: fmt.Sprintf("C09/%s/o%d/%s/n%d", p.Text, o, rep, n), Harness: "replace",
								Params: map[string]string{"pattern": p.Text, "options": itoa(o), "copts": "", "n": itoa(n), "rep": rep, "repk": "0", "key_extra": rep}})
						}
					}
					// symbolic replacement strings over the $-grammar alphabet
					if tier == "thorough" || (i+k+seed)%4 == 0 {
						for _, rk := range []int{2, 3} {
							if rk == 3 && tier != "thorough" {
								continue
							}
							us = append(us, Unit{ID: fmt.Sprintf("C09/%s/o%d/sym%d/n2", p.Text, o, rk), Harness: "replace", PathBudget: 60000,
								Params: map[string]string{"pattern": p.Text, "options": itoa(o), "copts": "", "n": "2", "rep": "", "repk": itoa(rk), "key_extra": "symrep"}})
						}
					}
				}
			}
			return us
		},
		Rule:      "For each (pattern, direction, replacement, n): subject = string of n symbolic scalars; startAt in [-1,len] and count in [-1,3] are solver variables (case-split); the replacement is a fixed string from the $-grammar or k symbolic bytes over the alphabet {$,{,},0,1,2,a,&,`,',+,_,x}; on every feasible path Replace equals the fold over FindStringMatchStartingAt/FindNextMatch with an independent $-expander, ReplaceFunc with that expander equals Replace, Replace with $& is the identity, Split pieces re-joined with the matched texts rebuild the input.",
		Witnesses: []string{"replaced", "nothing-replaced", "split-leg", "end"},
	})
}
