package main

import (
	"bufio"
	"crypto/sha1"
	"encoding/json"
	"fmt"
	"io"
	"os"
	"os/exec"
	"path/filepath"
	"regexp"
	"runtime"
	"sort"
	"strconv"
	"strings"
	"sync"
	"time"

	"verif/internal/interp"
)

type propSpec struct {
	ID          string
	Build       func(tier string, seed int) []Unit
	Rule        string
	Assumptions []string
	Witnesses   []string // reach ids that must be hit somewhere in the run (vacuity guard)
	Bounds      func(tier string) map[string]any
	Encoded     []string // functions named in the claim (informational; measured list is in evidence)
}

var props = map[string]*propSpec{}

func register(p *propSpec) { props[p.ID] = p }

type knownFinding struct {
	Property string `json:"property"`
	Key      string `json:"key"`
	KeyRegex string `json:"key_regex,omitempty"` // alternative to key: a family of keys (e.g. one pattern under every option subset)
	Status   string `json:"status"` // "open" or "fixed"
	What     string `json:"what"`
	Commit   string `json:"commit,omitempty"`
}

func loadKnown() []knownFinding {
	var out []knownFinding
	f, err := os.Open(filepath.Join(verifDir, "known_findings.jsonl"))
	if err != nil {
		return nil
	}
	defer f.Close()
	sc := bufio.NewScanner(f)
	sc.Buffer(make([]byte, 1<<20), 1<<20)
	for sc.Scan() {
		l := strings.TrimSpace(sc.Text())
		if l == "" || strings.HasPrefix(l, "#") {
			continue
		}
		var k knownFinding
		if json.Unmarshal([]byte(l), &k) == nil {
			out = append(out, k)
		}
	}
	return out
}

// violationKey identifies a finding independently of the solver's model.
func violationKey(prop string, u Unit, v interp.Violation) string {
	p := u.Params
	return strings.Join([]string{prop, u.Harness, v.ID, p["pattern"], "opts=" + p["options"], "copts=" + p["copts"], p["key_extra"]}, "|")
}

type runStats struct {
	units, skipped, broken, undecidedUnits int
	paths                                  int
	decisions, implied                     int64
	fdImplied, fdSolved, fdConfirmed       int64
	queries, sat, unsat, unknown, solverErr int
	solverS                                float64
	steps                                  int64
	aborted                                map[string]int
	reached                                map[string]int
	intrinsics                             map[string]int64
	fnSteps                                map[string]int64
}

type workerProc struct {
	cmd *exec.Cmd
	in  io.WriteCloser
	out *bufio.Reader
}

func startWorker() (*workerProc, error) {
	self, _ := os.Executable()
	cmd := exec.Command(self, "worker")
	cmd.Stderr = os.Stderr
	in, err := cmd.StdinPipe()
	if err != nil {
		return nil, err
	}
	out, err := cmd.StdoutPipe()
	if err != nil {
		return nil, err
	}
	if err := cmd.Start(); err != nil {
		return nil, err
	}
	return &workerProc{cmd, in, bufio.NewReaderSize(out, 1<<20)}, nil
}

func (w *workerProc) kill() {
	w.in.Close()
	w.cmd.Process.Kill()
	w.cmd.Wait()
}

// runUnits distributes units over worker processes.
func runUnits(units []Unit, nworkers int, unitTimeout time.Duration, progress bool) []UnitResult {
	results := make([]UnitResult, len(units))
	var next int
	var mu sync.Mutex
	var wg sync.WaitGroup
	done := 0
	t0 := time.Now()
	if nworkers > len(units) {
		nworkers = len(units)
	}
	for w := 0; w < nworkers; w++ {
		wg.Add(1)
		go func() {
			defer wg.Done()
			var wp *workerProc
			defer func() {
				if wp != nil {
					wp.in.Close()
					wp.cmd.Wait()
				}
			}()
			for {
				mu.Lock()
				i := next
				next++
				mu.Unlock()
				if i >= len(units) {
					return
				}
				if wp == nil {
					var err error
					wp, err = startWorker()
					if err != nil {
						results[i] = UnitResult{Unit: units[i], Broken: "cannot start worker: " + err.Error()}
						continue
					}
				}
				b, _ := json.Marshal(units[i])
				wp.in.Write(append(b, '\n'))
				type rd struct {
					line string
					err  error
				}
				ch := make(chan rd, 1)
				go func(r *bufio.Reader) {
					l, err := r.ReadString('\n')
					ch <- rd{l, err}
				}(wp.out)
				select {
				case r := <-ch:
					if r.err != nil {
						results[i] = UnitResult{Unit: units[i], Broken: "worker died: " + r.err.Error()}
						wp.kill()
						wp = nil
					} else if err := json.Unmarshal([]byte(r.line), &results[i]); err != nil {
						results[i] = UnitResult{Unit: units[i], Broken: "bad worker output: " + err.Error()}
					}
				case <-time.After(unitTimeout):
					wp.kill()
					wp = nil
					results[i] = UnitResult{Unit: units[i], Undecided: []string{"unit-timeout"}}
				}
				mu.Lock()
				done++
				if progress && done%50 == 0 {
					fmt.Fprintf(os.Stderr, "  .. %d/%d units, %.0fs\n", done, len(units), time.Since(t0).Seconds())
				}
				mu.Unlock()
			}
		}()
	}
	wg.Wait()
	return results
}

func tierOf(args []string) string {
	t := os.Getenv("VERIF_TIER")
	if len(args) > 1 {
		t = args[1]
	}
	if t != "thorough" {
		t = "quick"
	}
	return t
}

func checkMain(args []string) int {
	if len(args) < 1 {
		fmt.Fprintln(os.Stderr, "usage: gosym check <property> [quick|thorough]")
		return 2
	}
	id := args[0]
	p := props[id]
	if p == nil {
		fmt.Fprintf(os.Stderr, "unknown property %s\n", id)
		return 2
	}
	tier := tierOf(args)
	// VERIF_SEED is recorded in the evidence but does not select units: every run of a tier explores the same
	// unit set, the one whose verdict on the unchanged tree is known (a seed-dependent subset could contain a
	// unit nobody has ever run)
	seed, _ := strconv.Atoi(os.Getenv("VERIF_SEED"))
	t0 := time.Now()
	units := p.Build(tier, 0)
	unitsBuilt := len(units)
	thinNote := ""
	if tier == "thorough" {
		// The thorough unit sets are products (all option sets x all lengths x the unthinned pattern products)
		// and would run for days. Kept: every unit the quick tier runs (same id, so the thorough tier is a
		// superset of the quick one) plus as many of the others as the budget allows, chosen by a fixed hash of
		// the unit id. The numbers are written into the evidence.
		budget := thoroughBudget[id]
		if b, _ := strconv.Atoi(os.Getenv("GOSYM_THOROUGH_UNITS")); b > 0 {
			budget = b
		}
		if budget > 0 && len(units) > budget {
			quick := map[string]bool{}
			for _, u := range p.Build("quick", 0) {
				quick[u.ID] = true
			}
			var keep, rest []Unit
			for _, u := range units {
				if quick[u.ID] {
					keep = append(keep, u)
				} else {
					rest = append(rest, u)
				}
			}
			sort.SliceStable(rest, func(i, j int) bool { return hashSeed(rest[i].ID, 0) < hashSeed(rest[j].ID, 0) })
			if n := budget - len(keep); n > 0 && n < len(rest) {
				rest = rest[:n]
			} else if n <= 0 {
				rest = nil
			}
			units = append(keep, rest...)
			thinNote = fmt.Sprintf("thorough tier: %d units built, %d explored (all %d quick-tier units + %d chosen by a fixed hash of the unit id)", unitsBuilt, len(units), len(keep), len(rest))
			fmt.Fprintln(os.Stderr, "gosym:", thinNote)
		}
	}
	runInfo = map[string]any{"units_built": unitsBuilt, "units_selected": len(units), "selection": thinNote}
	if only := os.Getenv("GOSYM_ONLY"); only != "" {
		// debugging aid: keep the units whose id contains the given text
		var sel []Unit
		for _, u := range units {
			if strings.HasPrefix(only, "re:") {
				if m, _ := regexp.MatchString(only[3:], u.ID); m {
					sel = append(sel, u)
				}
			} else if strings.Contains(u.ID, only) {
				sel = append(sel, u)
			}
		}
		units = sel
	}
	if lim, _ := strconv.Atoi(os.Getenv("GOSYM_MAXUNITS")); lim > 0 && len(units) > lim {
		units = units[:lim]
	}
	// vacuity canary: an assertion that must be reported as failing
	units = append(units, Unit{ID: "canary", Harness: "canary", Params: map[string]string{"n": "2"}, Domain: "quick"})
	for i := range units {
		if units[i].Domain == "" {
			// thorough: all of Unicode for texts of up to two runes (no finite-domain procedure there: every
			// decision is a z3 query over the 600-range Unicode predicates); longer texts, where the path count
			// is what costs, keep the clipped rune domain of the quick tier
			if n, _ := strconv.Atoi(units[i].Params["n"]); tier == "thorough" && n <= 2 {
				units[i].Domain = "full"
			} else {
				units[i].Domain = "quick"
			}
		}
		if i%40 == 0 {
			units[i].CountFns = true
		}
		if units[i].TimeBudgetS == 0 {
			units[i].TimeBudgetS = 120
			if tier == "thorough" {
				units[i].TimeBudgetS = 600
			}
		}
	}
	nw := runtime.NumCPU()
	if n, _ := strconv.Atoi(os.Getenv("GOSYM_WORKERS")); n > 0 {
		nw = n
	}
	ut := 240 * time.Second
	if tier == "thorough" {
		ut = 900 * time.Second
	}
	fmt.Fprintf(os.Stderr, "gosym: %s %s: %d units on %d workers\n", id, tier, len(units), nw)
	results := runUnits(units, nw, ut, true)
	return report(p, tier, seed, results, t0)
}

// thoroughBudget: number of units explored by the thorough tier per property (chosen so that a run takes
// roughly 10 to 30 minutes on 16 cores; GOSYM_THOROUGH_UNITS overrides).
var thoroughBudget = map[string]int{
	"C01": 16000, "C15": 16000, "C03": 24000, "C04": 24000, "C05": 21000, "C07": 6000, "C18": 8000, "C20": 3200,
	"C02": 2300, "C08": 1500, "C06": 500, "C17": 4000, "C16": 7000, "C09": 1100, "C12": 450, "C13": 450, "C10": 300, "C11": 60,
}

var runInfo map[string]any

type replayCase struct {
	ID      string            `json:"id"`
	Pkg     string            `json:"pkg"`
	Harness string            `json:"harness"`
	Params  map[string]string `json:"params"`
	Model   map[string]uint64 `json:"model"`
	// expectations
	WantFail string   `json:"want_fail,omitempty"` // assertion id expected to fail
	Notes    []string `json:"notes,omitempty"`     // notes recorded by the interpreter on this path
	Msg      string   `json:"msg,omitempty"`       // message of the failed assertion / panic in the interpreter
}

type replayOut struct {
	ID       string   `json:"id"`
	Failures []string `json:"failures"`
	Notes    []string `json:"notes"`
	Panic    string   `json:"panic"`
}

func report(p *propSpec, tier string, seed int, results []UnitResult, t0 time.Time) int {
	st := runStats{aborted: map[string]int{}, reached: map[string]int{}, intrinsics: map[string]int64{}, fnSteps: map[string]int64{}}
	var undecided, broken, skippedUnits []string
	skipKinds := map[string]int{}
	type viol struct {
		u Unit
		v interp.Violation
	}
	var viols []viol
	canaryOK := false
	var samples []any
	var passing []replayCase
	patterns := map[string]bool{}
	nontrivial := 0
	for _, r := range results {
		if r.Unit.Harness == "canary" {
			for _, v := range r.Violations {
				if v.ID == "canary" {
					canaryOK = true
				}
			}
			if r.Broken != "" {
				broken = append(broken, "canary: "+r.Broken)
			}
			continue
		}
		st.units++
		if r.Broken != "" {
			st.broken++
			broken = append(broken, r.Unit.ID+": "+firstLine(r.Broken))
			continue
		}
		if r.Skipped != "" {
			st.skipped++
			kind := skipKind(r.Skipped)
			skippedUnits = append(skippedUnits, r.Unit.ID+": ["+kind+"] "+firstLine(r.Skipped))
			skipKinds[kind]++
			if !expectedSkip(p.ID, kind) {
				// the unit's set-up (compiling an enumerated pattern) failed in a way the unchanged tree never
				// does for this property: a valid pattern that no longer compiles, or a Go panic inside Compile
				id := "setup-compile-error"
				if kind == "go-panic" {
					id = "setup-go-panic"
				}
				viols = append(viols, viol{r.Unit, interp.Violation{ID: id, Msg: firstLine(r.Skipped), Model: map[string]uint64{}, Detail: []string{kind}}})
			}
			continue
		}
		if len(r.Undecided) > 0 {
			// a unit that stopped exploring because it already has violations is not "undecided" for the
			// purpose of the 5% rule (its verdict is the violation); it is still listed
			onlyStopped := len(r.Violations) > 0
			for _, u := range r.Undecided {
				if u != "stopped-after-violations" {
					onlyStopped = false
				}
			}
			if !onlyStopped {
				st.undecidedUnits++
			}
			undecided = append(undecided, r.Unit.ID+": "+strings.Join(uniq(r.Undecided), ","))
		}
		st.paths += r.Paths
		st.decisions += r.Decisions
		st.implied += r.Implied
		st.fdImplied += r.FDImplied
		st.fdSolved += r.FDSolved
		st.fdConfirmed += r.FDConfirmed
		st.queries += r.Queries
		st.sat += r.Sat
		st.unsat += r.Unsat
		st.unknown += r.Unknown
		st.solverErr += r.SolverErr
		st.solverS += r.SolverS
		st.steps += r.Steps
		for k, v := range r.Aborted {
			st.aborted[k] += v
		}
		for k, v := range r.Reached {
			st.reached[k] += v
		}
		for k, v := range r.Intrinsics {
			st.intrinsics[k] += v
		}
		for k, v := range r.FnSteps {
			st.fnSteps[k] += v
		}
		if r.Paths > 1 {
			nontrivial++
		}
		patterns[r.Unit.Params["pattern"]+"|"+r.Unit.Params["options"]] = true
		for _, v := range r.Violations {
			viols = append(viols, viol{r.Unit, v})
		}
		for k, s := range r.Samples {
			if len(samples) < 6 && k == len(r.Samples)-1 && r.Paths > 1 {
				samples = append(samples, map[string]any{"unit": r.Unit.ID, "params": r.Unit.Params, "paths_in_unit": r.Paths,
					"model": s.Model, "observed": s.Notes, "path_conditions": s.Conds})
			}
			passing = append(passing, replayCase{ID: fmt.Sprintf("%s#%d", r.Unit.ID, k), Pkg: r.Unit.Pkg, Harness: r.Unit.Harness, Params: r.Unit.Params, Model: s.Model, Notes: s.Notes})
		}
	}
	exit := 0
	var lines []string
	if os.Getenv("GOSYM_SLOWEST") != "" {
		rs := append([]UnitResult(nil), results...)
		sort.Slice(rs, func(i, j int) bool { return rs[i].WallS > rs[j].WallS })
		for i := 0; i < 8 && i < len(rs); i++ {
			fmt.Fprintf(os.Stderr, "  slow: %.1fs (solver %.1fs, %d paths, %d queries) %s\n", rs[i].WallS, rs[i].SolverS, rs[i].Paths, rs[i].Queries, rs[i].Unit.ID)
		}
	}
	if !canaryOK {
		broken = append(broken, "vacuity canary: the always-false assertion was not reported")
	}
	for _, w := range p.Witnesses {
		if st.reached[w] == 0 {
			broken = append(broken, "vacuity: witness "+w+" was never reached")
		}
	}
	// known findings
	known := loadKnown()
	knownOpen := map[string]knownFinding{}
	var knownRe []knownFinding
	for _, k := range known {
		if k.Property == p.ID && k.Status == "open" {
			if k.KeyRegex != "" {
				knownRe = append(knownRe, k)
			} else {
				knownOpen[k.Key] = k
			}
		}
	}
	lookupKnown := func(key string) (knownFinding, bool) {
		if k, ok := knownOpen[key]; ok {
			return k, true
		}
		for _, k := range knownRe {
			if m, _ := regexp.MatchString(k.KeyRegex, key); m {
				return k, true
			}
		}
		return knownFinding{}, false
	}
	// replay: violations (must reproduce) and a sample of passing paths (must agree)
	var cases []replayCase
	type vrec struct {
		key  string
		u    Unit
		v    interp.Violation
		file string
	}
	var vrecs []vrec
	seenKey := map[string]bool{}
	for i, v := range viols {
		key := violationKey(p.ID, v.u, v.v)
		if seenKey[key] {
			continue
		}
		seenKey[key] = true
		rc := replayCase{ID: fmt.Sprintf("viol%d", i), Pkg: v.u.Pkg, Harness: v.u.Harness, Params: v.u.Params, Model: v.v.Model, WantFail: v.v.ID, Notes: v.v.Detail, Msg: v.v.Msg}
		cases = append(cases, rc)
		vrecs = append(vrecs, vrec{key: key, u: v.u, v: v.v})
	}
	maxPassing := 200
	if tier == "thorough" {
		maxPassing = 2000
	}
	if len(passing) > maxPassing {
		stride := len(passing) / maxPassing
		var sel []replayCase
		for i := 0; i < len(passing); i += stride {
			sel = append(sel, passing[i])
		}
		passing = sel
	}
	nv := len(cases)
	cases = append(cases, passing...)
	validated, reproduced := 0, map[string]bool{}
	_ = validated
	var knownSeen []string
	// schedule-dependent harnesses (coroutine scheduler, virtual clock) cannot be replayed against
	// the native build: the recorded schedule is re-executed deterministically in the interpreter instead
	var nativeCases []replayCase
	interpReplayed := 0
	for i, c := range cases {
		if !interpReplayOnly(c) {
			nativeCases = append(nativeCases, c)
			continue
		}
		if i >= nv {
			validated++ // passing path of a concurrent harness: nothing to compare natively
			continue
		}
		ru := Unit{ID: "replay-" + c.ID, Pkg: c.Pkg, Harness: c.Harness, Params: c.Params, Domain: vrecs[i].u.Domain, StepBudget: vrecs[i].u.StepBudget, ReplayModel: c.Model}
		rr := runUnits([]Unit{ru}, 1, 300*time.Second, false)
		ok := false
		for _, v := range rr[0].Violations {
			if v.ID == c.WantFail {
				ok = true
			}
		}
		interpReplayed++
		if ok {
			reproduced[c.ID] = true
		} else {
			broken = append(broken, fmt.Sprintf("counterexample %s (%s) did not reproduce when its schedule was re-executed: %v", c.ID, c.WantFail, c.Params))
		}
	}
	if len(nativeCases) > 0 && os.Getenv("GOSYM_NOREPLAY") == "" {
		outs, err := nativeReplay(nativeCases)
		if err != nil {
			broken = append(broken, "native replay failed: "+err.Error())
		} else {
			byID := map[string]replayOut{}
			for _, o := range outs {
				byID[o.ID] = o
			}
			for i, c := range cases {
				if interpReplayOnly(c) {
					continue
				}
				o, ok := byID[c.ID]
				if !ok {
					broken = append(broken, "native replay: no result for "+c.ID)
					continue
				}
				if i < nv {
					hit := false
					for _, f := range o.Failures {
						if f == c.WantFail || strings.HasPrefix(f, c.WantFail+":") {
							hit = true
						}
					}
					if c.WantFail == "go-panic" || c.WantFail == "panic" || c.WantFail == "setup-go-panic" {
						hit = o.Panic != ""
					}
					if c.WantFail == "setup-compile-error" {
						hit = strings.Contains(o.Panic, "compile:")
					}
					if hit {
						reproduced[c.ID] = true
					} else {
						broken = append(broken, fmt.Sprintf("counterexample %s (%s, %v) did not reproduce natively: failures=%v panic=%q notes=%v model=%v interpreter said: %s", c.ID, c.WantFail, c.Params, o.Failures, o.Panic, o.Notes, c.Model, c.Msg))
					}
					continue
				}
				if len(o.Failures) > 0 || o.Panic != "" {
					broken = append(broken, fmt.Sprintf("passing path %s fails natively: %v %s", c.ID, o.Failures, o.Panic))
					continue
				}
				if !sameNotes(c.Notes, o.Notes) {
					broken = append(broken, fmt.Sprintf("translation validation: %s %v model=%v: interpreter observed %v, native build observed %v", c.ID, c.Params, c.Model, c.Notes, o.Notes))
					continue
				}
				validated++
			}
		}
	}
	os.MkdirAll(filepath.Join(outDir, "replays"), 0o755)
	nviol := 0
	knownPrinted := map[string]bool{}
	for i, vr := range vrecs {
		cid := cases[i].ID
		if !reproduced[cid] {
			continue
		}
		if k, ok := lookupKnown(vr.key); ok {
			if !knownPrinted[k.What] {
				lines = append(lines, fmt.Sprintf("KNOWN-FINDING: property=%s %s", p.ID, k.What))
				knownPrinted[k.What] = true
			}
			knownSeen = append(knownSeen, vr.key)
			continue
		}
		nviol++
		h := sha1.Sum([]byte(vr.key))
		file := filepath.Join(outDir, "replays", fmt.Sprintf("%s-%x.json", p.ID, h[:6]))
		b, _ := json.MarshalIndent(map[string]any{"property": p.ID, "key": vr.key, "harness": vr.u.Harness, "pkg": vr.u.Pkg, "params": vr.u.Params,
			"model": vr.v.Model, "failed_assertion": vr.v.ID, "message": vr.v.Msg, "observed": vr.v.Detail}, "", " ")
		os.WriteFile(file, b, 0o644)
		lines = append(lines, fmt.Sprintf("VIOLATION property=%s replay=%s", p.ID, file))
		fmt.Fprintf(os.Stderr, "  violation: %s  observed=%v model=%v\n", vr.key, vr.v.Detail, vr.v.Model)
		exit = 1
	}
	decidedUnits := st.units - st.skipped - st.broken
	// more than 5% (quick) / 15% (thorough: fewer and much larger units) undecided units: the run claims too
	// little to be reported as a pass
	limitPct := 5
	if tier == "thorough" {
		limitPct = 15
	}
	if decidedUnits > 0 && st.undecidedUnits*100 > decidedUnits*limitPct {
		broken = append(broken, fmt.Sprintf("%d of %d units undecided (more than %d%%)", st.undecidedUnits, decidedUnits, limitPct))
	}
	if decidedUnits == 0 {
		broken = append(broken, "no unit was decided")
	}
	if len(broken) > 0 && nviol == 0 {
		// a reproduced violation is a verdict on the code under test whatever else went wrong in the run;
		// BROKEN (exit 2) is reserved for runs that have nothing but machinery problems to report
		exit = 2
	}
	// evidence
	fns := topFns(st.fnSteps, 60)
	bounds := map[string]any{}
	if p.Bounds != nil {
		bounds = p.Bounds(tier)
	}
	if len(samples) == 0 {
		samples = append(samples, "no multi-path unit in this run")
	}
	ev := map[string]any{
		"property_id": p.ID,
		"tier":        tier,
		"seed":        seed,
		"level":       "model_checking",
		"wall_s":      time.Since(t0).Seconds(),
		"violations":  nviol,
		"assumptions": append([]string{
			"intrinsic models of sync.Pool/Mutex, sync/atomic, fmt (opaque), unicode predicates and case maps (host tables as SMT define-funs), bytealg, strings.Builder.String",
			"go/ssa construction and the forked interpreter's semantics (cross-checked per run by native replay of sampled paths)",
			"z3 " + envOr("GOSYM_SOLVER", "z3-new") + " answers; unknown/error answers make a unit undecided, never passed",
		}, p.Assumptions...),
		"coverage": map[string]any{
			"states":                        st.paths,
			"transitions":                   st.decisions,
			"traces_validated_against_impl": validated,
			"samples":                       samples,
			"evaluations":                   st.paths,
			"distinct_nontrivial":           nontrivial,
			"rule":                          p.Rule + " One evaluation = one feasible path class of one unit, decided for all values of the symbolic inputs in that class; a unit is non-trivial if its symbolic inputs split into more than one path class.",
			"exhaustive":                    len(undecided) == 0 && len(broken) == 0,
			"units":                         st.units,
			"units_skipped_setup":           st.skipped,
			"units_skipped_by_reason":       skipKinds,
			"units_undecided":               undecided,
			"units_broken":                  broken,
			"patterns":                      len(patterns),
			"decisions_implied":             st.implied,
			"finite_domain_procedure":       map[string]any{"decisions_implied": st.fdImplied, "path_conditions_decided": st.fdSolved, "verdicts_confirmed_by_z3": st.fdConfirmed, "note": "conditions over ONE variable with a listed domain (bytes, runes of the clipped domains, small integer ranges) are decided exactly on the candidate list by the engine (DESIGN.md 0.1); one in 5000 implied decisions and one in 100 path conditions decided this way are also put to z3 in every run; everything else is decided by z3"},
			"queries":                       map[string]any{"total": st.queries, "sat": st.sat, "unsat": st.unsat, "unknown": st.unknown, "errors": st.solverErr},
			"solver_s":                      st.solverS,
			"interpreted_instructions":      st.steps,
			"paths_aborted":                 st.aborted,
			"witnesses":                     st.reached,
			"intrinsics_hit":                st.intrinsics,
			"functions_encoded_sampled":     fns,
			"bounds":                        bounds,
			"run":                           runInfo,
			"known_findings_seen":           knownSeen,
			"counterexamples_replayed":      nv,
		},
	}
	os.MkdirAll(filepath.Join(outDir, "evidence"), 0o755)
	b, _ := json.MarshalIndent(ev, "", " ")
	os.WriteFile(filepath.Join(outDir, "evidence", p.ID+".json"), b, 0o644)
	for _, l := range lines {
		fmt.Println(l)
	}
	for _, b := range broken {
		fmt.Fprintf(os.Stderr, "BROKEN: %s\n", b)
	}
	if os.Getenv("GOSYM_LISTSKIPS") != "" {
		for _, s := range skippedUnits {
			fmt.Fprintf(os.Stderr, "  skipped: %s\n", s)
		}
	}
	if len(undecided) > 0 {
		fmt.Fprintf(os.Stderr, "undecided units (%d): %s\n", len(undecided), strings.Join(head(undecided, 8), "; "))
	}
	fmt.Fprintf(os.Stderr, "gosym: %s %s: units=%d skipped=%d paths=%d decisions=%d queries=%d (sat %d unsat %d unknown %d) solver=%.1fs validated=%d violations=%d known=%d wall=%.1fs exit=%d\n",
		p.ID, tier, st.units, st.skipped, st.paths, st.decisions, st.queries, st.sat, st.unsat, st.unknown, st.solverS, validated, nviol, len(knownSeen), time.Since(t0).Seconds(), exit)
	return exit
}

func sameNotes(a, b []string) bool {
	norm := func(s string) string { return strings.ReplaceAll(s, "~", "") }
	if len(a) != len(b) {
		return false
	}
	for i := range a {
		if norm(a[i]) != norm(b[i]) {
			return false
		}
	}
	return true
}

func firstLine(s string) string {
	if i := strings.IndexByte(s, '\n'); i >= 0 {
		return s[:i]
	}
	return s
}

func uniq(xs []string) []string {
	m := map[string]bool{}
	var out []string
	for _, x := range xs {
		if !m[x] {
			m[x] = true
			out = append(out, x)
		}
	}
	return out
}

func head(xs []string, n int) []string {
	if len(xs) > n {
		return xs[:n]
	}
	return xs
}

func topFns(m map[string]int64, n int) map[string]int64 {
	type kv struct {
		k string
		v int64
	}
	var kvs []kv
	for k, v := range m {
		if strings.Contains(k, "dlclark/regexp2") || strings.HasPrefix(k, "regexp") || strings.HasPrefix(k, "(*regexp") {
			kvs = append(kvs, kv{k, v})
		}
	}
	sort.Slice(kvs, func(i, j int) bool { return kvs[i].v > kvs[j].v })
	out := map[string]int64{}
	for i, e := range kvs {
		if i >= n {
			break
		}
		out[strings.ReplaceAll(e.k, "github.com/dlclark/regexp2/v2", "regexp2")] = e.v
	}
	return out
}

func replayMain(args []string) int {
	if len(args) < 1 {
		fmt.Fprintln(os.Stderr, "usage: gosym replay <file>")
		return 2
	}
	b, err := os.ReadFile(args[0])
	if err != nil {
		fmt.Fprintln(os.Stderr, err)
		return 2
	}
	var rec struct {
		Property string            `json:"property"`
		Harness  string            `json:"harness"`
		Pkg      string            `json:"pkg"`
		Params   map[string]string `json:"params"`
		Model    map[string]uint64 `json:"model"`
		Failed   string            `json:"failed_assertion"`
	}
	if err := json.Unmarshal(b, &rec); err != nil {
		fmt.Fprintln(os.Stderr, err)
		return 2
	}
	outs, err := nativeReplay([]replayCase{{ID: "r", Pkg: rec.Pkg, Harness: rec.Harness, Params: rec.Params, Model: rec.Model, WantFail: rec.Failed}})
	if err != nil {
		fmt.Fprintln(os.Stderr, err)
		return 2
	}
	o := outs[0]
	fmt.Printf("failures=%v panic=%q observed=%v\n", o.Failures, o.Panic, o.Notes)
	if len(o.Failures) > 0 || o.Panic != "" {
		fmt.Printf("VIOLATION property=%s replay=%s\n", rec.Property, args[0])
		return 1
	}
	return 0
}

// skipKind classifies the reason a unit's set-up declined the unit: the parse error code of a pattern that
// does not compile under the unit's options, or "go-panic" for anything else (a Go panic inside Compile).
func skipKind(msg string) string {
	msg = firstLine(msg)
	if i := strings.Index(msg, "compile: "); i >= 0 {
		k := msg[i+len("compile: "):]
		k = strings.TrimPrefix(k, "error parsing regexp: ")
		if j := strings.Index(k, " in `"); j >= 0 {
			k = k[:j]
		}
		return k
	}
	return "go-panic"
}

var expectedSkips map[string][]string

// expectedSkip: /verif/expected_skips.json lists, per property, the parse-error kinds with which enumerated
// patterns are rejected on the unchanged tree (e.g. duplicate group names under ECMAScript). Any other reason
// for a failed set-up is reported as a violation rather than silently shrinking the covered set.
func expectedSkip(prop, kind string) bool {
	if expectedSkips == nil {
		expectedSkips = map[string][]string{}
		if b, err := os.ReadFile(filepath.Join(verifDir, "expected_skips.json")); err == nil {
			json.Unmarshal(b, &expectedSkips)
		}
	}
	if kind == "go-panic" {
		return false
	}
	for _, k := range expectedSkips[prop] {
		if k == kind {
			return true
		}
	}
	return false
}

// interpReplayOnly: counterexamples that only exist in the interpreter's model of the environment (a
// schedule of the coroutine scheduler, the virtual clock, the ownership log of the modelled sync.Pool) are
// re-executed deterministically in the interpreter; everything else is replayed against the native build.
func interpReplayOnly(c replayCase) bool {
	return c.Params["interp_replay"] != "" || c.WantFail == "pool-double-put"
}
