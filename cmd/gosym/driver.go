package main

func checkMain(args []string) int  { return 2 }
func replayMain(args []string) int { return 2 }
