package main

// Native replay: the same harness files are compiled against the real build of
// the current tree (go test -c -overlay, nothing is written into the repo) and
// run on concrete input vectors taken from solver models.

import (
	"bytes"
	"encoding/json"
	"fmt"
	"go/ast"
	"go/format"
	"go/parser"
	"go/token"
	"os"
	"os/exec"
	"path/filepath"
	"regexp"
	"sort"
	"strings"
)

var scratchDir string

func scratch() string {
	if scratchDir == "" {
		scratchDir = fmt.Sprintf("/var/tmp/verif.%d", os.Getpid())
		os.MkdirAll(scratchDir, 0o755)
	}
	return scratchDir
}

func cleanupScratch() {
	if scratchDir != "" {
		os.RemoveAll(scratchDir)
	}
}

var harnessFnRe = regexp.MustCompile(`(?m)^func VerifCheck_(\w+)\(\)`)

const replayTestTmpl = `package PKGNAME

import (
	"encoding/json"
	"fmt"
	"os"
	"testing"
)

type verifReplayCase struct {
	ID      string            ` + "`json:\"id\"`" + `
	Harness string            ` + "`json:\"harness\"`" + `
	Params  map[string]string ` + "`json:\"params\"`" + `
	Model   map[string]uint64 ` + "`json:\"model\"`" + `
}

type verifReplayOut struct {
	ID       string   ` + "`json:\"id\"`" + `
	Failures []string ` + "`json:\"failures\"`" + `
	Notes    []string ` + "`json:\"notes\"`" + `
	Panic    string   ` + "`json:\"panic\"`" + `
}

var verifHarnesses = map[string][2]func(){
HARNESSES
}

func verifRunCase(c verifReplayCase) (out verifReplayOut) {
	out.ID = c.ID
	verifVec = c.Model
	verifParams = c.Params
	verifFailures = nil
	verifNotes = nil
	verifReached = map[string]int{}
	defer func() {
		if r := recover(); r != nil {
			if _, ok := r.(verifAssumeFailed); !ok {
				out.Panic = fmt.Sprint(r)
			}
		}
		out.Failures = verifFailures
		out.Notes = verifNotes
	}()
	h, ok := verifHarnesses[c.Harness]
	if !ok {
		panic("no harness " + c.Harness)
	}
	if h[0] != nil {
		h[0]()
	}
	h[1]()
	return
}

func TestVerifReplay(t *testing.T) {
	b, err := os.ReadFile(os.Getenv("VERIF_REPLAY_IN"))
	if err != nil {
		t.Fatal(err)
	}
	var cases []verifReplayCase
	if err := json.Unmarshal(b, &cases); err != nil {
		t.Fatal(err)
	}
	var outs []verifReplayOut
	for _, c := range cases {
		outs = append(outs, verifRunCase(c))
	}
	ob, _ := json.Marshal(outs)
	if err := os.WriteFile(os.Getenv("VERIF_REPLAY_OUT"), ob, 0o644); err != nil {
		t.Fatal(err)
	}
}
`

// rewriteFns are the rewrite passes switched off for C05 (same list as the
// interpreter's "norewrite" interception set) with the value they return.
var rewriteFns = map[string]string{
	"findAndMakeLoopsAtomic":          "",
	"eliminateEndingBacktracking":     "",
	"finalOptimize":                   "RECV",
	"extractCommonPrefixText":         "RECV",
	"extractCommonPrefixOneNotoneSet": "RECV",
	"findBranchOneOrMultiStart":       "nil",
}

// patchedTree returns syntax/tree.go with "if VerifNoRewrite { return ... }" at
// the entry of every rewrite pass (for the native build only).
func patchedTree() ([]byte, error) {
	src, err := os.ReadFile(filepath.Join(repoDir, "syntax", "tree.go"))
	if err != nil {
		return nil, err
	}
	fset := token.NewFileSet()
	f, err := parser.ParseFile(fset, "tree.go", src, parser.ParseComments)
	if err != nil {
		return nil, err
	}
	found := 0
	for _, d := range f.Decls {
		fd, ok := d.(*ast.FuncDecl)
		if !ok || fd.Recv == nil || fd.Body == nil {
			continue
		}
		ret, ok := rewriteFns[fd.Name.Name]
		if !ok {
			continue
		}
		found++
		var results []ast.Expr
		switch ret {
		case "RECV":
			if len(fd.Recv.List[0].Names) == 0 {
				return nil, fmt.Errorf("%s: unnamed receiver", fd.Name.Name)
			}
			results = []ast.Expr{ast.NewIdent(fd.Recv.List[0].Names[0].Name)}
		case "nil":
			results = []ast.Expr{ast.NewIdent("nil")}
		}
		guard := &ast.IfStmt{Cond: ast.NewIdent("VerifNoRewrite"), Body: &ast.BlockStmt{List: []ast.Stmt{&ast.ReturnStmt{Results: results}}}}
		fd.Body.List = append([]ast.Stmt{guard}, fd.Body.List...)
	}
	if found != len(rewriteFns) {
		return nil, fmt.Errorf("only %d of %d rewrite passes found in tree.go", found, len(rewriteFns))
	}
	var buf bytes.Buffer
	if err := format.Node(&buf, fset, f); err != nil {
		return nil, err
	}
	return buf.Bytes(), nil
}

type replayBuild struct {
	bin string
	err error
}

var replayBuilds = map[string]*replayBuild{}

func pkgSub(pkg string) (sub, name string) {
	switch pkg {
	case "syntax":
		return "syntax", "syntax"
	case "compat":
		return "compat", "compat"
	}
	return "", "regexp2"
}

// buildReplay compiles the native replay test binary for one package.
func buildReplay(pkg string) (string, error) {
	if b, ok := replayBuilds[pkg]; ok {
		return b.bin, b.err
	}
	sub, name := pkgSub(pkg)
	dir := scratch()
	ov, err := harnessOverlay()
	if err != nil {
		return "", err
	}
	repl := map[string]string{}
	i := 0
	var harnessNames []string
	for virt, content := range ov {
		i++
		real := filepath.Join(dir, fmt.Sprintf("ov%d_%s", i, filepath.Base(virt)))
		if err := os.WriteFile(real, content, 0o644); err != nil {
			return "", err
		}
		repl[virt] = real
		if filepath.Dir(virt) == filepath.Join(repoDir, sub) || (sub == "" && filepath.Dir(virt) == repoDir) {
			for _, m := range harnessFnRe.FindAllStringSubmatch(string(content), -1) {
				harnessNames = append(harnessNames, m[1])
			}
		}
	}
	sort.Strings(harnessNames)
	var hs strings.Builder
	for _, h := range harnessNames {
		setup := "nil"
		for _, content := range ov {
			if bytes.Contains(content, []byte("func VerifSetup_"+h+"()")) {
				setup = "VerifSetup_" + h
			}
		}
		fmt.Fprintf(&hs, "\t%q: {%s, VerifCheck_%s},\n", h, setup, h)
	}
	test := strings.Replace(strings.Replace(replayTestTmpl, "PKGNAME", name, 1), "HARNESSES", hs.String(), 1)
	testFile := filepath.Join(dir, "replay_"+name+"_test.go")
	os.WriteFile(testFile, []byte(test), 0o644)
	repl[filepath.Join(repoDir, sub, "zz_verif_replay_test.go")] = testFile
	if pt, err := patchedTree(); err == nil {
		f := filepath.Join(dir, "tree_patched.go")
		os.WriteFile(f, pt, 0o644)
		repl[filepath.Join(repoDir, "syntax", "tree.go")] = f
	} else {
		fmt.Fprintf(os.Stderr, "gosym: native no-rewrite build unavailable: %v\n", err)
	}
	ovb, _ := json.Marshal(map[string]any{"Replace": repl})
	ovFile := filepath.Join(dir, "overlay_"+name+".json")
	os.WriteFile(ovFile, ovb, 0o644)
	bin := filepath.Join(dir, "replay_"+name+".test")
	target := "."
	if sub != "" {
		target = "./" + sub
	}
	cmd := exec.Command("go", "test", "-c", "-vet=off", "-overlay", ovFile, "-o", bin, target)
	cmd.Dir = repoDir
	cmd.Env = goEnv()
	out, err := cmd.CombinedOutput()
	rb := &replayBuild{bin: bin}
	if err != nil {
		rb.err = fmt.Errorf("go test -c: %v\n%s", err, out)
	}
	replayBuilds[pkg] = rb
	return rb.bin, rb.err
}

func nativeReplay(cases []replayCase) ([]replayOut, error) {
	defer cleanupScratch()
	byPkg := map[string][]replayCase{}
	for _, c := range cases {
		byPkg[c.Pkg] = append(byPkg[c.Pkg], c)
	}
	var all []replayOut
	for pkg, cs := range byPkg {
		bin, err := buildReplay(pkg)
		if err != nil {
			return nil, err
		}
		in := filepath.Join(scratch(), "cases_"+pkg+".json")
		out := filepath.Join(scratch(), "out_"+pkg+".json")
		b, _ := json.Marshal(cs)
		os.WriteFile(in, b, 0o644)
		sub, _ := pkgSub(pkg)
		cmd := exec.Command(bin, "-test.run", "^TestVerifReplay$", "-test.timeout", "20m")
		cmd.Dir = filepath.Join(repoDir, sub)
		cmd.Env = append(os.Environ(), "VERIF_REPLAY_IN="+in, "VERIF_REPLAY_OUT="+out)
		if o, err := cmd.CombinedOutput(); err != nil {
			return nil, fmt.Errorf("replay binary: %v\n%s", err, o)
		}
		ob, err := os.ReadFile(out)
		if err != nil {
			return nil, err
		}
		var outs []replayOut
		if err := json.Unmarshal(ob, &outs); err != nil {
			return nil, err
		}
		all = append(all, outs...)
	}
	replayBuilds = map[string]*replayBuild{}
	return all, nil
}
