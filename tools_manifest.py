#!/usr/bin/env python3
# Regenerates MANIFEST.json from the table below (kept as a script so that the
# manifest stays consistent while checks are added).
import json, sys
claimed = {
 "C01": ("model_checking", "Bounded symbolic execution of the real parser/reducer/writer/interpreter from go/ssa: for each enumerated (pattern, option set, text length) every feasible path over symbolic text runes and start offset is decided by z3 against an independent reference matcher; holds for all texts up to the stated length over the stated rune domain, for the enumerated patterns only.", "4.C01"),
 "C03": ("model_checking", "Same engine; oracle = naive scan of the same compiled program (no candidate finder, no prefix filter, no length cut-off). All feasible paths over symbolic text up to the bound, per enumerated pattern/direction/code-gen flag.", "4.C03"),
 "C04": ("model_checking", "Same engine; every published compile-time fact is asserted at every position where a single-position attempt of the compiled program succeeds, on all feasible paths over symbolic text up to the bound.", "4.C04"),
 "C05": ("model_checking", "Same engine; the pattern is compiled twice inside the interpreter (rewrite passes intercepted for the second compile) and both programs are scanned on symbolic text; all feasible paths up to the bound.", "4.C05"),
 "C07": ("model_checking", "Same engine; FindNextMatch iterated to exhaustion on symbolic text, each match recomputed by an independent naive scan; order/disjointness/termination and find-all filtering asserted on all feasible paths up to the bound.", "4.C07"),
 "C13": ("model_checking", "Same engine; the stack limit L itself is a solver variable (bounded range) next to the symbolic text; result is limit error or equals the unlimited result, no Go panic, capacity <= L, monotone in L.", "4.C13"),
 "C15": ("model_checking", "As C01 with RightToLeft and the reference matcher's direction flag.", "4.C15"),
 "C17": ("model_checking", "Numbering rule computed from an independent parse; API look-ups asserted concretely inside the interpreter, group order/names/back-references on symbolic text on all feasible paths.", "4.C17"),
 "C18": ("model_checking", "Same engine; three spellings of each option subset compiled in the interpreter, snapshots equal on all feasible paths over symbolic text and equal to the reference matcher with the options applied by the independent parser.", "4.C18"),
 "C19": ("model_checking", "Escape/Unescape executed symbolically on strings of symbolic Unicode scalars (all of Unicode for n<=1 in quick, n<=2 thorough); compile leg drives the real parser/writer with a symbolic literal.", "4.C19"),
 "C20": ("model_checking", "Same engine; symbolic text plus a second text tied to it by the case-partner relation, and case-flipped pattern variants; match position/length equal on all feasible paths.", "4.C20"),
}
pending = {}
for line in open('/verif/pending_props.txt'):
    line=line.strip()
    if line and not line.startswith('#'):
        pid, reason = line.split('|',1)
        pending[pid.strip()] = reason.strip()
extra = json.load(open('/verif/claimed_extra.json')) if __import__('os').path.exists('/verif/claimed_extra.json') else {}
for k,v in extra.items():
    claimed[k]=tuple(v)
checks=[]
for pid in sorted(claimed):
    if pid in pending: continue
    lvl,text,ref = claimed[pid]
    checks.append({
      "property_id": pid,
      "quick_cmd": f"bin/check {pid} quick",
      "thorough_cmd": f"bin/check {pid} thorough",
      "evidence_file": f"/verif/evidence/{pid}.json",
      "replay_cmd_template": "bin/gosym replay {path}",
      "engine": "gosym",
      "level_claimed": {"category": lvl, "text": text, "design_ref": "DESIGN.md section "+ref},
      "level_note": "Trusted: go/ssa construction, the forked interpreter (validated per run by native replay of sampled paths), the intrinsic models listed in DESIGN.md 2.3, z3 and the engine's finite-domain procedure for one-variable conditions (DESIGN.md 0.1; cross-checked against z3 on a sample in every run). Claims are bounded: enumerated patterns, text length, rune domain as written in the evidence file. VERIF_SEED is recorded but does not select units.",
      "technique": "solver-based bounded symbolic execution of the real code: go/ssa interpreter fork with symbolic bit-vector inputs, every feasible path within the stated bounds decided by z3 (path conditions made only of one-variable literals over small listed domains are decided by the engine's exact finite-domain procedure, sampled against z3 in every run); counterexamples replayed against the native build",
    })
m={
 "version":1,
 "setup_cmd":"bin/check --build-only",
 "hooks":{"guard":"verif","enable":"none needed: harnesses are in-package overlay files (go/packages Overlay for the interpreter, go test -overlay for native replay); nothing is written to /repo","baseline_off_cmd":"cd /repo && PATH=/opt/veriftools/go1.26.8/bin:$PATH GOFLAGS=-mod=mod GOPROXY=off GOTOOLCHAIN=local go test -vet=off -count=1 ./...","source_commits":[],"add_only":True},
 "engines":[{"name":"gosym","path":"/verif/cmd/gosym","serves_properties":sorted(k for k in claimed if k not in pending),"kind_free_text":"bounded symbolic executor for Go: fork of x/tools go/ssa/interp with symbolic bit-vector scalars and strings, DFS over decision prefixes by re-execution with an undo trail, z3 over a pipe, native replay of counterexamples and of sampled passing paths"}],
 "checks":checks,
 "not_applicable":[{"property_id":k,"reason":v} for k,v in sorted(pending.items())],
 "notes":"All checks rebuild gosym and re-load /repo's current working tree (go/packages + go/ssa) on every run. Exit 0 held / 1 VIOLATION / 2 BROKEN (machinery problem, never on the unchanged tree). Known findings: /verif/known_findings.jsonl."
}
json.dump(m, open('/verif/MANIFEST.json','w'), indent=1)
print("checks:", [c["property_id"] for c in checks], "not_applicable:", sorted(pending))
