package regexp2

import (
	"strconv"
	"unicode"

	"github.com/dlclark/regexp2/v2/syntax"
)

// ---------------------------------------------------------------- C05

func verifCompileNoRewrite(pattern string, options int, copts string) *Regexp {
	var re *Regexp
	syntax.VerifNoRewrite = true // native replay build: consulted by the patched tree.go
	verifWithStubs("norewrite", func() { re = verifCompile(pattern, options, copts) })
	syntax.VerifNoRewrite = false
	return re
}

var verifSameProgram bool
var verifRE3 *Regexp

func VerifSetup_rewrite() {
	verifRE = verifCompile(verifParam("pattern"), verifParamInt("options"), verifParam("copts"))
	verifRE2 = verifCompileNoRewrite(verifParam("pattern"), verifParamInt("options"), verifParam("copts"))
	verifSameProgram = verifEqInts(verifRE.code.Codes, verifRE2.code.Codes) && len(verifRE.code.Sets) == len(verifRE2.code.Sets)
}

func VerifCheck_rewrite() {
	if verifSameProgram {
		verifReach("same-program")
		return
	}
	verifReach("programs-differ")
	n := verifParamInt("n")
	t := verifText(n)
	start := verifStart(n, verifRE.RightToLeft())
	a, err := verifNaiveScan(verifRE, t, start, -1)
	if err != nil {
		verifFail("error", err.Error())
	}
	b, err := verifNaiveScan(verifRE2, t, start, -1)
	if err != nil {
		verifFail("error-norewrite", err.Error())
	}
	sa, sb := verifSnap(a), verifSnap(b)
	verifNoteInts("rewritten", sa)
	verifNoteInts("plain", sb)
	if a != nil {
		verifReach("match")
	} else {
		verifReach("nomatch")
	}
	verifAssert("rewritten==plain", verifEqInts(sa, sb))
	// the same two programs through the real scan loop: the bump-along marker has no effect on a
	// position-by-position scan, it only shows where the scan resumes after a failed attempt
	c, err := verifRE.FindRunesMatchStartingAt(t, start)
	if err != nil {
		verifFail("error-find", err.Error())
	}
	d, err := verifRE2.FindRunesMatchStartingAt(t, start)
	if err != nil {
		verifFail("error-find-norewrite", err.Error())
	}
	sc, sd := verifSnap(c), verifSnap(d)
	verifNoteInts("rewritten-find", sc)
	verifNoteInts("plain-find", sd)
	verifAssert("rewritten==plain/find", verifEqInts(sc, sd))
	verifReach("end")
}

// ---------------------------------------------------------------- C07

func VerifSetup_iter() {
	verifRE = verifCompile(verifParam("pattern"), verifParamInt("options"), verifParam("copts"))
}

func VerifCheck_iter() {
	n := verifParamInt("n")
	t := verifText(n)
	rtl := verifRE.RightToLeft()
	origin := 0
	if rtl {
		origin = n
	}
	m, err := verifRE.FindRunesMatch(t)
	if err != nil {
		verifFail("error", err.Error())
	}
	prevPos, prevLen := origin, -1
	prevIdx := -1
	var seq [][2]int
	count := 0
	for {
		nm, err := verifNaiveScan(verifRE, t, prevPos, prevLen)
		if err != nil {
			verifFail("error-naive", err.Error())
		}
		sa, sb := verifSnap(m), verifSnap(nm)
		verifNoteInts("next", sa)
		verifNoteInts("recomputed", sb)
		verifAssert("next==independent-search", verifEqInts(sa, sb))
		if m == nil {
			break
		}
		count++
		verifAssert("terminates-within-len+1", count <= n+1)
		verifAssert("in-bounds", m.RuneIndex >= 0 && m.RuneLength >= 0 && m.RuneIndex+m.RuneLength <= n)
		if prevLen >= 0 {
			if !rtl {
				lo := prevIdx + prevLen
				if prevLen == 0 {
					lo++
				}
				verifAssert("advancing-disjoint", m.RuneIndex >= lo)
			} else {
				hi := prevIdx
				if prevLen == 0 {
					hi--
				}
				verifAssert("advancing-disjoint", m.RuneIndex+m.RuneLength <= hi)
			}
		}
		seq = append(seq, [2]int{m.RuneIndex, m.RuneLength})
		prevIdx, prevLen = m.RuneIndex, m.RuneLength
		if rtl {
			prevPos = m.RuneIndex
		} else {
			prevPos = m.RuneIndex + m.RuneLength
		}
		m, err = verifRE.FindNextMatch(m)
		if err != nil {
			verifFail("error", err.Error())
		}
	}
	if count > 0 {
		verifReach("some-match")
	}
	if count > 1 {
		verifReach("several-matches")
	}
	// find-all = the sequence minus empty matches adjacent to the preceding reported match, truncated to k
	for k := -1; k <= 3; k++ {
		got, err := verifRE.FindAllRunesIndex(t, k)
		if err != nil {
			verifFail("error-findall", err.Error())
		}
		var want []int
		prevEnd := -1
		cnt := 0
		for _, s := range seq {
			if k >= 0 && cnt >= k {
				break
			}
			adj := s[0]
			if rtl {
				adj = s[0] + s[1]
			}
			if s[1] == 0 && adj == prevEnd {
				continue
			}
			want = append(want, s[0], s[0]+s[1])
			cnt++
			if rtl {
				prevEnd = s[0]
			} else {
				prevEnd = s[0] + s[1]
			}
		}
		var flat []int
		for _, p := range got {
			flat = append(flat, p...)
		}
		verifNoteInts("findall", flat)
		verifNoteInts("expected", want)
		verifAssert("findall==sequence", verifEqInts(flat, want))
		if k == 0 {
			verifAssert("findall(0)==nil", got == nil)
		}
	}
	verifReach("end")
}

// ---------------------------------------------------------------- C13

func VerifSetup_limit() {
	verifRE = verifCompile(verifParam("pattern"), verifParamInt("options"), verifParam("copts"))
	verifRE2 = verifCompile(verifParam("pattern"), verifParamInt("options"), verifParam("copts"))
	verifRE2.optimizations.MaxBacktrackingStackSize = -1
	verifRE3 = verifCompile(verifParam("pattern"), verifParamInt("options"), verifParam("copts"))
}

// verifTrackCap reports the backtracking-stack capacity of the pooled interpreter state.
func verifTrackCap(re *Regexp) int {
	r := re.getRunner()
	c := len(r.runtrack)
	re.putRunner(r)
	return c
}

func VerifCheck_limit() {
	n := verifParamInt("n")
	var t []rune
	if verifParam("textdom") == "a-e" {
		// long runs of loops: a five-letter domain keeps the text classes few
		t = make([]rune, n)
		for i := range t {
			t[i] = verifRuneIn("t"+string(rune('0'+i)), 'a', 'e')
		}
	} else {
		t = verifText(n)
	}
	if pad := verifParam("pad"); pad != "" {
		// a concrete run in front of the symbolic runes: the backtracking stack has to grow past its
		// initial size (64 slots) before the symbolic part decides the outcome
		t = append([]rune(pad), t...)
	}
	lmax := verifParamInt("lmax")
	_ = lmax
	L := verifIntSet("L", verifParam("ldom"))
	L2 := verifIntSet("L2", verifParam("l2dom"))
	verifAssume(L2 > L)
	if verifParam("lconcrete") != "" {
		// long runs: every push compares against the limit, so the limit is case-split up front
		// (one branch per value of its domain) instead of at every comparison
		L = verifConcrete(L)
		L2 = verifConcrete(L2)
	}
	// unlimited reference
	ref, err := verifRE2.FindRunesMatch(t)
	if err != nil {
		verifFail("error-unlimited", err.Error())
	}
	sref := verifSnap(ref)
	verifRE.optimizations.MaxBacktrackingStackSize = L
	if verifParam("boolfirst") != "" {
		// a bool-only call first: the pooled interpreter state is then sized by the capture-free program
		if _, err := verifRE.MatchRunes(t); err != nil {
			verifAssert("only-limit-error/bool", err == ErrBacktrackingStackLimit)
		}
	}
	m, err := verifRE.FindRunesMatch(t)
	verifAssert("stack<=L", verifTrackCap(verifRE) <= L)
	okAtL := err == nil
	if err != nil {
		verifAssert("only-limit-error", err == ErrBacktrackingStackLimit)
		verifReach("limit-hit")
	} else {
		s := verifSnap(m)
		verifNoteInts("limited", s)
		verifNoteInts("unlimited", sref)
		verifAssert("limited==unlimited", verifEqInts(s, sref))
		verifReach("within-limit")
	}
	// still usable: a second call on the same Regexp (same limit) again gives the
	// reference result or the limit error, and does not panic
	m2, err2 := verifRE.FindRunesMatch(t)
	if err2 != nil {
		verifAssert("usable-afterwards", err2 == ErrBacktrackingStackLimit)
	} else {
		verifAssert("usable-afterwards", verifEqInts(verifSnap(m2), sref))
	}
	verifAssert("stack<=L-afterwards", verifTrackCap(verifRE) <= L)
	// monotone: success at L implies the same success at L2 > L (fresh Regexp state: new pool entry)
	if okAtL {
		re3 := verifRE3
		re3.optimizations.MaxBacktrackingStackSize = L2
		m3, err := re3.FindRunesMatch(t)
		re3.optimizations.MaxBacktrackingStackSize = -1
		verifAssert("raising-L-keeps-success", err == nil)
		if err == nil {
			verifAssert("raising-L-same-result", verifEqInts(verifSnap(m3), sref))
		}
	}
	verifReach("end")
}

// ---------------------------------------------------------------- C18

var verifREs []*Regexp

func VerifSetup_spell() {
	// three spellings of the same option set: compile option, leading (?O), wrapping (?O:...)
	verifREs = nil
	verifREs = append(verifREs, verifCompile(verifParam("pattern"), verifParamInt("options"), ""))
	verifREs = append(verifREs, verifCompile(verifParam("pattern_inline"), verifParamInt("options_rest"), ""))
	verifREs = append(verifREs, verifCompile(verifParam("pattern_wrap"), verifParamInt("options_rest"), ""))
	if p := verifParam("pattern_off"); p != "" {
		// every option on at compile time, the unwanted ones switched off inline; and (?on-off:...)
		verifREs = append(verifREs, verifCompile(p, verifParamInt("options_all"), ""))
		verifREs = append(verifREs, verifCompile(verifParam("pattern_onoff"), 0, ""))
	}
	if verifParam("ast") != "" {
		verifSpec = verifParseSpec(verifParam("ast"))
		verifNG = verifParamInt("ngroups")
	} else {
		verifSpec = nil
	}
}

func VerifCheck_spell() {
	n := verifParamInt("n")
	t := verifText(n)
	if verifParamInt("anyi") != 0 {
		verifAssumeCaseSimple(t)
	}
	var first []int
	for i, re := range verifREs {
		m, err := re.FindRunesMatch(t)
		if err != nil {
			verifFail("error", err.Error())
		}
		s := verifSnap(m)
		if i == 0 {
			first = s
			verifNoteInts("option", s)
			if m != nil {
				verifReach("match")
			} else {
				verifReach("nomatch")
			}
		} else {
			verifNoteInts("spelling", s)
			verifAssert("spellings-agree", verifEqInts(first, s))
		}
	}
	if verifSpec != nil {
		want := verifSpecFind(verifSpec, verifNG, t, 0, false)
		verifNoteInts("spec", want)
		verifAssert("scoping==spec", verifEqInts(first, want))
		verifReach("spec-leg")
	}
	verifReach("end")
}

// ---------------------------------------------------------------- C20

func VerifSetup_icase() {
	verifREs = nil
	verifREs = append(verifREs, verifCompile(verifParam("pattern"), verifParamInt("options"), verifParam("copts")))
	if p2 := verifParam("pattern_flipped"); p2 != "" {
		verifREs = append(verifREs, verifCompile(p2, verifParamInt("options"), verifParam("copts")))
	}
}

// verifFoldPartner: the other member of r's plain upper/lower pair (r itself if caseless).
func verifFoldPartner(r rune) rune { return unicode.SimpleFold(r) }

func VerifCheck_icase() {
	n := verifParamInt("n")
	t := verifText(n)
	verifAssumeCaseSimple(t)
	// t2[i] is t[i] or its case partner: a fresh variable tied to t[i] by one constraint
	// (cheaper for the solver than carrying the case map through every class test)
	t2 := make([]rune, n)
	flips := 0
	if n > 0 {
		flips = verifConcrete(verifInt("flips", 0, (1<<uint(n))-1))
	}
	for i := range t {
		// bit i of the (case-split) flip vector: t2[i] is the case partner of t[i]. Every condition on t2[i]
		// is then a condition on the one variable t[i], which the finite-domain filter decides natively.
		if flips>>uint(i)&1 != 0 {
			t2[i] = unicode.SimpleFold(t[i])
		} else {
			t2[i] = t[i]
		}
	}
	pos := func(m *Match) []int {
		if m == nil {
			return []int{-1}
		}
		return []int{m.RuneIndex, m.RuneLength}
	}
	m1, err := verifREs[0].FindRunesMatch(t)
	if err != nil {
		verifFail("error", err.Error())
	}
	m2, err := verifREs[0].FindRunesMatch(t2)
	if err != nil {
		verifFail("error", err.Error())
	}
	verifNoteInts("original", pos(m1))
	verifNoteInts("text-flipped", pos(m2))
	if m1 != nil {
		verifReach("match")
	} else {
		verifReach("nomatch")
	}
	verifAssert("invariant-under-text-case", verifEqInts(pos(m1), pos(m2)))
	// the string entry points see the same. They differ from the rune entry points only by the UTF-8
	// decoding (case-blind, C02/C08) unless the program has a raw-string prefix filter (ASCII ignore-case
	// searches on the undecoded string): the string leg runs for exactly those programs, so that the
	// encode/decode forks (4 width classes per rune) are not paid by every unit.
	if verifREs[0].stringPrefixFilter != nil {
		verifReach("string-leg")
		b1, err := verifREs[0].MatchString(string(t))
		if err != nil {
			verifFail("error", err.Error())
		}
		b2, err := verifREs[0].MatchString(string(t2))
		if err != nil {
			verifFail("error", err.Error())
		}
		verifAssert("MatchString-invariant-under-text-case", b1 == b2 && b1 == (m1 != nil))
	}
	if len(verifREs) > 1 {
		m3, err := verifREs[1].FindRunesMatch(t)
		if err != nil {
			verifFail("error", err.Error())
		}
		verifNoteInts("pattern-flipped", pos(m3))
		verifAssert("invariant-under-pattern-case", verifEqInts(pos(m1), pos(m3)))
	}
	verifReach("end")
}

// ---------------------------------------------------------------- C17

func verifSplitComma(s string) []string {
	var out []string
	cur := ""
	for i := 0; i < len(s); i++ {
		if s[i] == ',' {
			out = append(out, cur)
			cur = ""
		} else {
			cur += string(s[i])
		}
	}
	out = append(out, cur)
	return out
}

func verifAtoi(s string) int {
	n := 0
	for i := 0; i < len(s); i++ {
		n = n*10 + int(s[i]-'0')
	}
	return n
}

func VerifSetup_groups() {
	verifSpec = nil
	if a := verifParam("ast"); a != "" {
		verifSpec = verifParseSpec(a)
	}
	verifREs = nil
	verifREs = append(verifREs, verifCompile(verifParam("pattern"), verifParamInt("options"), verifParam("copts")))
	if p := verifParam("pattern_byname"); p != "" {
		verifREs = append(verifREs, verifCompile(p, verifParamInt("options"), verifParam("copts")))
		verifREs = append(verifREs, verifCompile(verifParam("pattern_bynumber"), verifParamInt("options"), verifParam("copts")))
	}
}

func verifGroupEq(a, b *Group) bool {
	if a == nil || b == nil {
		return a == b
	}
	if a.Name != b.Name || len(a.Captures) != len(b.Captures) || a.RuneIndex != b.RuneIndex || a.RuneLength != b.RuneLength {
		return false
	}
	for i := range a.Captures {
		if a.Captures[i].RuneIndex != b.Captures[i].RuneIndex || a.Captures[i].RuneLength != b.Captures[i].RuneLength {
			return false
		}
	}
	return true
}

func VerifCheck_groups() {
	re := verifREs[0]
	names := verifSplitComma(verifParam("names"))
	var nums []int
	for _, s := range verifSplitComma(verifParam("nums")) {
		nums = append(nums, verifAtoi(s))
	}
	gn := re.GetGroupNumbers()
	verifNoteInts("numbers", gn)
	verifAssert("GetGroupNumbers", verifEqInts(gn, nums))
	gnames := re.GetGroupNames()
	ok := len(gnames) == len(names)
	if ok {
		for i := range names {
			if gnames[i] != names[i] {
				ok = false
			}
		}
	}
	for _, s := range gnames {
		verifNote(s)
	}
	verifAssert("GetGroupNames", ok)
	for i := range nums {
		verifAssert("GroupNameFromNumber", re.GroupNameFromNumber(nums[i]) == names[i])
		if names[i] != "" {
			verifAssert("GroupNumberFromName", re.GroupNumberFromName(names[i]) == nums[i])
		}
	}
	verifAssert("unknown-name", re.GroupNumberFromName("nosuchgroup") == -1)
	verifAssert("unknown-number", re.GroupNameFromNumber(977) == "")
	n := verifParamInt("n")
	t := verifText(n)
	m, err := re.FindRunesMatch(t)
	if err != nil {
		verifFail("error", err.Error())
	}
	if verifSpec != nil {
		// which text every group captured: the reference matcher on the independent parse, its groups
		// numbered by the documented rule
		got := verifSnap(m)
		want := verifSpecFindNums(verifSpec, nums[1:], t, 0, false)
		verifNoteInts("engine", got)
		verifNoteInts("spec", want)
		verifAssert("captures==spec", verifEqInts(got, want))
		verifReach("spec-leg")
	}
	if m != nil {
		verifReach("match")
		gs := m.Groups()
		verifAssert("Groups-count", len(gs) == len(nums))
		for i := range gs {
			verifAssert("Groups-order-name", gs[i].Name == names[i])
			if names[i] != "" {
				verifAssert("GroupByName", verifGroupEq(m.GroupByName(names[i]), &gs[i]))
			}
			verifAssert("GroupByNumber", verifGroupEq(m.GroupByNumber(nums[i]), &gs[i]))
		}
		verifAssert("GroupByName-unknown", m.GroupByName("nosuchgroup") == nil)
	} else {
		verifReach("nomatch")
	}
	// $n, ${n} and ${name} in a replacement designate the same group
	if n <= 1 || len(nums) <= 4 {
		s := string(t)
		for i := 1; i < len(nums); i++ {
			ns := strconv.Itoa(nums[i])
			a, err := re.Replace(s, "<${"+ns+"}>", -1, -1)
			if err != nil {
				verifFail("error-replace", err.Error())
			}
			b, err := re.Replace(s, "<$"+ns+">", -1, -1)
			if err != nil {
				verifFail("error-replace", err.Error())
			}
			verifAssert("replacement-$n==${n}", a == b)
			// ... and that group is the one Match.Groups reports under this number: the first match's text
			// replaced by <text of group nums[i]>
			if m != nil && i < len(m.Groups()) {
				bi, bl := m.ByteRange()
				want := s[:bi] + "<" + m.Groups()[i].String() + ">" + s[bi+bl:]
				first, err := re.Replace(s, "<${"+ns+"}>", -1, 1)
				if err != nil {
					verifFail("error-replace", err.Error())
				}
				verifAssert("replacement-${n}==Groups[n]", first == want)
			}
			if names[i] != "" && names[i] != ns {
				c, err := re.Replace(s, "<${"+names[i]+"}>", -1, -1)
				if err != nil {
					verifFail("error-replace", err.Error())
				}
				verifAssert("replacement-${name}==${n}", a == c)
			}
		}
		verifReach("replacement-leg")
	}
	if len(verifREs) > 1 {
		a, err := verifREs[1].FindRunesMatch(t)
		if err != nil {
			verifFail("error", err.Error())
		}
		b, err := verifREs[2].FindRunesMatch(t)
		if err != nil {
			verifFail("error", err.Error())
		}
		sa, sb := verifSnap(a), verifSnap(b)
		verifNoteInts("backref-by-name", sa)
		verifNoteInts("backref-by-number", sb)
		verifAssert("backref-name==number", verifEqInts(sa, sb))
		verifReach("backref-leg")
	}
	verifReach("end")
}
