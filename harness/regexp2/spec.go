package regexp2

// Reference semantics "leftmost, priority-ordered backtracking search"
// (DESIGN.md Appendix B/E). Independent of the engine: own AST (read from an
// s-expression produced by the driver's own parser/generator), own class
// membership, own matcher.

import (
	"strconv"
	"unicode"
)

const (
	skLit = iota
	skDot
	skClass
	skCat
	skAlt
	skRep
	skCap
	skGrp
	skLook
	skAtomic
	skBackref
	skCondRef
	skCondExpr
	skBol
	skEol
	skBegA
	skEndZ
	skEndz
	skWordB
	skNWordB
	skStartG
	skEmpty
)

const (
	sfI = 1
	sfM = 2
	sfS = 4
	sfR = 8
	sfE = 16
)

type specItem struct {
	lo, hi rune
	cat    string
	neg    bool
}

type specNode struct {
	k      int
	ch     rune
	items  []specItem
	neg    bool
	kids   []*specNode
	min    int
	max    int
	lazy   bool
	g      int
	behind bool
	f      int
	closed bool // IgnoreCase class whose ranges were case-closed at parse time
	sub    *specNode
}

// ---- s-expression reader

type specReader struct {
	s   string
	pos int
}

func (r *specReader) ws() {
	for r.pos < len(r.s) && r.s[r.pos] == ' ' {
		r.pos++
	}
}

func (r *specReader) tok() string {
	r.ws()
	st := r.pos
	for r.pos < len(r.s) && r.s[r.pos] != ' ' && r.s[r.pos] != '(' && r.s[r.pos] != ')' {
		r.pos++
	}
	return r.s[st:r.pos]
}

func (r *specReader) num() int {
	n, err := strconv.Atoi(r.tok())
	if err != nil {
		panic("spec: bad number")
	}
	return n
}

func (r *specReader) open() bool {
	r.ws()
	if r.pos < len(r.s) && r.s[r.pos] == '(' {
		r.pos++
		return true
	}
	return false
}

func (r *specReader) close() {
	r.ws()
	if r.pos >= len(r.s) || r.s[r.pos] != ')' {
		panic("spec: expected )")
	}
	r.pos++
}

func (r *specReader) kids(n *specNode) {
	for {
		r.ws()
		if r.pos < len(r.s) && r.s[r.pos] == '(' {
			n.kids = append(n.kids, r.node())
		} else {
			break
		}
	}
}

func (r *specReader) node() *specNode {
	if !r.open() {
		panic("spec: expected (")
	}
	n := &specNode{}
	switch r.tok() {
	case "lit":
		n.k, n.ch, n.f = skLit, rune(r.num()), r.num()
	case "dot":
		n.k, n.f = skDot, r.num()
	case "cls":
		n.k = skClass
		n.neg = r.num() != 0
		n.f = r.num()
		for r.open() {
			var it specItem
			switch r.tok() {
			case "r":
				it.lo, it.hi = rune(r.num()), rune(r.num())
			case "c":
				it.cat = r.tok()
				it.neg = r.num() != 0
			case "sub":
				n.sub = r.node()
				r.close()
				continue
			}
			r.close()
			n.items = append(n.items, it)
		}
	case "cat":
		n.k = skCat
		r.kids(n)
	case "alt":
		n.k = skAlt
		r.kids(n)
	case "grp":
		n.k = skGrp
		r.kids(n)
	case "cap":
		n.k, n.g = skCap, r.num()
		r.kids(n)
	case "rep":
		n.k, n.min, n.max = skRep, r.num(), r.num()
		n.lazy = r.num() != 0
		r.kids(n)
	case "look":
		n.k = skLook
		n.behind = r.num() != 0
		n.neg = r.num() != 0
		r.kids(n)
	case "atom":
		n.k = skAtomic
		r.kids(n)
	case "ref":
		n.k, n.g, n.f = skBackref, r.num(), r.num()
	case "cref":
		n.k, n.g = skCondRef, r.num()
		r.kids(n)
	case "cexp":
		n.k = skCondExpr
		r.kids(n)
	case "bol":
		n.k, n.f = skBol, r.num()
	case "eol":
		n.k, n.f = skEol, r.num()
	case "bega":
		n.k = skBegA
	case "endZ":
		n.k = skEndZ
	case "endz":
		n.k = skEndz
	case "wb":
		n.k, n.f = skWordB, r.num()
	case "nwb":
		n.k, n.f = skNWordB, r.num()
	case "startg":
		n.k = skStartG
	case "empty":
		n.k = skEmpty
	default:
		panic("spec: unknown node")
	}
	r.close()
	return n
}

func verifParseSpec(s string) *specNode {
	r := &specReader{s: s}
	n := r.node()
	specCloseCase(n)
	return n
}

// specCloseCase closes the (small) ranges of IgnoreCase classes under simple case
// equivalence once, so that membership needs no case mapping of the text rune.
func specCloseCase(n *specNode) {
	for _, k := range n.kids {
		specCloseCase(k)
	}
	if n.sub != nil {
		specCloseCase(n.sub)
	}
	if n.k != skClass || n.f&sfI == 0 {
		return
	}
	closed := true
	var extra []specItem
	for _, it := range n.items {
		if it.cat != "" {
			continue
		}
		if it.hi-it.lo > 4096 {
			closed = false
			continue
		}
		for r := it.lo; r <= it.hi; r++ {
			for x := unicode.SimpleFold(r); x != r; x = unicode.SimpleFold(x) {
				extra = append(extra, specItem{lo: x, hi: x})
			}
		}
	}
	n.items = append(n.items, extra...)
	n.closed = closed
}

// ---- character semantics

func specIsWord(r rune) bool {
	return unicode.In(r, unicode.L, unicode.Mn, unicode.Nd, unicode.Pc) || r == 0x200D || r == 0x200C
}

func specCat(cat string, f int, c rune) bool {
	ascii := f&(sfR|sfE) != 0
	switch cat {
	case "d":
		if ascii {
			return c >= '0' && c <= '9'
		}
		return unicode.IsDigit(c)
	case "w":
		if ascii {
			return c >= '0' && c <= '9' || c >= 'a' && c <= 'z' || c >= 'A' && c <= 'Z' || c == '_'
		}
		return specIsWord(c)
	case "s":
		if f&sfR != 0 {
			return c == '\t' || c == '\n' || c == '\f' || c == '\r' || c == ' '
		}
		if f&sfE != 0 {
			return c >= 9 && c <= 13 || c == ' ' || c == 0xa0 || c == 0x1680 || c >= 0x2000 && c <= 0x200a ||
				c == 0x2028 || c == 0x2029 || c == 0x202f || c == 0x205f || c == 0x3000 || c == 0xfeff
		}
		return unicode.IsSpace(c)
	}
	switch cat {
	case "posix_alpha":
		return c >= 'a' && c <= 'z' || c >= 'A' && c <= 'Z'
	case "posix_digit":
		return c >= '0' && c <= '9'
	case "posix_upper":
		return c >= 'A' && c <= 'Z'
	case "posix_space":
		return c == ' ' || c >= 9 && c <= 13
	case "posix_word":
		return c >= '0' && c <= '9' || c >= 'a' && c <= 'z' || c >= 'A' && c <= 'Z' || c == '_'
	case "posix_alnum":
		return c >= '0' && c <= '9' || c >= 'a' && c <= 'z' || c >= 'A' && c <= 'Z'
	case "posix_punct":
		return c >= '!' && c <= '/' || c >= ':' && c <= '@' || c >= '[' && c <= '`' || c >= '{' && c <= '~'
	case "posix_xdigit":
		return c >= '0' && c <= '9' || c >= 'a' && c <= 'f' || c >= 'A' && c <= 'F'
	}
	if t, ok := unicode.Categories[cat]; ok {
		return unicode.Is(t, c)
	}
	if t, ok := unicode.Scripts[cat]; ok {
		return unicode.Is(t, c)
	}
	panic("spec: unknown category " + cat)
}

func specRangesIn(n *specNode, c rune) bool {
	for _, it := range n.items {
		if it.cat == "" && c >= it.lo && c <= it.hi {
			return true
		}
	}
	return false
}

func specCatsIn(n *specNode, c rune) bool {
	in := false
	for _, it := range n.items {
		if it.cat == "" {
			continue
		}
		var m bool
		if n.f&sfI != 0 && (it.cat == "Lu" || it.cat == "Ll" || it.cat == "Lt") {
			// documented: under IgnoreCase the three cased-letter categories all match
			m = specCat("Lu", n.f, c) || specCat("Ll", n.f, c) || specCat("Lt", n.f, c)
		} else {
			m = specCat(it.cat, n.f, c)
		}
		if m != it.neg {
			in = true
		}
	}
	return in
}

// verifSumInClass: class membership (summarised by the engine: one decision per use).
// Under IgnoreCase the ranges are closed under simple case equivalence (text runes
// are restricted to plain upper/lower pairs, so the orbit is {c, SimpleFold(c)});
// categories are not case-folded except Lu/Ll/Lt.
func verifSumInClass(n *specNode, c rune) bool {
	in := specRangesIn(n, c) || specCatsIn(n, c)
	if n.f&sfI != 0 && !in && !n.closed {
		in = specRangesIn(n, unicode.SimpleFold(c))
	}
	res := in != n.neg
	if res && n.sub != nil {
		res = !verifSumInClass(n.sub, c)
	}
	return res
}

// verifSumLitEq: does text rune c match pattern literal pat (with flags f)?
func verifSumLitEq(pat rune, f int, c rune) bool {
	if pat == c {
		return true
	}
	if f&sfI == 0 {
		return false
	}
	for x := unicode.SimpleFold(pat); x != pat; x = unicode.SimpleFold(x) {
		if x == c {
			return true
		}
	}
	return false
}

func verifSumDot(f int, c rune) bool { return f&sfS != 0 || c != '\n' }

func verifSumIsWord(f int, c rune) bool {
	if f&sfE != 0 {
		return unicode.In(c, unicode.L, unicode.Mn, unicode.Nd, unicode.Pc)
	}
	return specIsWord(c)
}

// ---- matcher

type specSpan struct{ g, s, l int }

type specM struct {
	t      []rune
	caps   []specSpan
	origin int
	steps  int
}

func (m *specM) last(g int) (specSpan, bool) {
	for i := len(m.caps) - 1; i >= 0; i-- {
		if m.caps[i].g == g {
			return m.caps[i], true
		}
	}
	return specSpan{}, false
}

func (m *specM) one(pos, dir int, n *specNode, k func(int) bool) bool {
	var c rune
	var np int
	if dir > 0 {
		if pos >= len(m.t) {
			return false
		}
		c, np = m.t[pos], pos+1
	} else {
		if pos <= 0 {
			return false
		}
		c, np = m.t[pos-1], pos-1
	}
	var ok bool
	switch n.k {
	case skLit:
		ok = verifSumLitEq(n.ch, n.f, c)
	case skDot:
		ok = verifSumDot(n.f, c)
	default:
		ok = verifSumInClass(n, c)
	}
	if ok {
		return k(np)
	}
	return false
}

func (m *specM) refEq(f int, a, b rune) bool {
	if f&sfI != 0 {
		return unicode.ToLower(a) == unicode.ToLower(b)
	}
	return a == b
}

func (m *specM) endZ(pos int, k func(int) bool) bool {
	r := len(m.t) - pos
	if r > 1 || (r == 1 && m.t[pos] != '\n') {
		return false
	}
	return k(pos)
}

func (m *specM) m(n *specNode, pos, dir int, k func(int) bool) bool {
	m.steps++
	if m.steps > 200000 {
		verifGiveUp("spec-step-limit")
	}
	switch n.k {
	case skEmpty:
		return k(pos)
	case skLit, skDot, skClass:
		return m.one(pos, dir, n, k)
	case skCat:
		return m.cat(n.kids, pos, dir, k)
	case skAlt:
		for _, c := range n.kids {
			if m.m(c, pos, dir, k) {
				return true
			}
		}
		return false
	case skGrp:
		return m.m(n.kids[0], pos, dir, k)
	case skCap:
		start := pos
		return m.m(n.kids[0], pos, dir, func(p int) bool {
			s, e := start, p
			if e < s {
				s, e = e, s
			}
			m.caps = append(m.caps, specSpan{n.g, s, e - s})
			d := len(m.caps)
			if k(p) {
				return true
			}
			m.caps = m.caps[:d-1]
			return false
		})
	case skRep:
		return m.rep(n, 0, pos, dir, k)
	case skLook:
		d := len(m.caps)
		ldir := 1
		if n.behind {
			ldir = -1
		}
		ok := m.m(n.kids[0], pos, ldir, func(int) bool { return true })
		if n.neg {
			m.caps = m.caps[:d]
			if ok {
				return false
			}
			return k(pos)
		}
		if !ok {
			return false
		}
		if k(pos) {
			return true
		}
		m.caps = m.caps[:d]
		return false
	case skAtomic:
		d := len(m.caps)
		end := -1
		if !m.m(n.kids[0], pos, dir, func(p int) bool { end = p; return true }) {
			return false
		}
		if k(end) {
			return true
		}
		m.caps = m.caps[:d]
		return false
	case skBackref:
		s, ok := m.last(n.g)
		if !ok {
			if n.f&sfE != 0 {
				return k(pos)
			}
			return false
		}
		if dir > 0 {
			if len(m.t)-pos < s.l {
				return false
			}
			for i := 0; i < s.l; i++ {
				if !m.refEq(n.f, m.t[s.s+i], m.t[pos+i]) {
					return false
				}
			}
			return k(pos + s.l)
		}
		if pos < s.l {
			return false
		}
		for i := 0; i < s.l; i++ {
			if !m.refEq(n.f, m.t[s.s+i], m.t[pos-s.l+i]) {
				return false
			}
		}
		return k(pos - s.l)
	case skCondRef:
		if _, ok := m.last(n.g); ok {
			return m.m(n.kids[0], pos, dir, k)
		}
		return m.m(n.kids[1], pos, dir, k)
	case skCondExpr:
		d := len(m.caps)
		ok := m.m(n.kids[0], pos, 1, func(int) bool { return true })
		if ok {
			if m.m(n.kids[1], pos, dir, k) {
				return true
			}
			m.caps = m.caps[:d]
			return false
		}
		m.caps = m.caps[:d]
		return m.m(n.kids[2], pos, dir, k)
	case skBol:
		if n.f&sfM == 0 {
			if pos != 0 {
				return false
			}
			return k(pos)
		}
		if pos > 0 && m.t[pos-1] != '\n' {
			return false
		}
		return k(pos)
	case skEol:
		if n.f&sfM == 0 {
			if n.f&(sfR|sfE) != 0 {
				if pos != len(m.t) {
					return false
				}
				return k(pos)
			}
			return m.endZ(pos, k)
		}
		if pos < len(m.t) && m.t[pos] != '\n' {
			return false
		}
		return k(pos)
	case skBegA:
		if pos != 0 {
			return false
		}
		return k(pos)
	case skEndZ:
		return m.endZ(pos, k)
	case skEndz:
		if pos != len(m.t) {
			return false
		}
		return k(pos)
	case skWordB, skNWordB:
		l := pos > 0 && verifSumIsWord(n.f, m.t[pos-1])
		r := pos < len(m.t) && verifSumIsWord(n.f, m.t[pos])
		if (l != r) == (n.k == skWordB) {
			return k(pos)
		}
		return false
	case skStartG:
		if pos != m.origin {
			return false
		}
		return k(pos)
	}
	panic("spec: kind")
}

func (m *specM) cat(kids []*specNode, pos, dir int, k func(int) bool) bool {
	if len(kids) == 0 {
		return k(pos)
	}
	if dir > 0 {
		return m.m(kids[0], pos, dir, func(p int) bool { return m.cat(kids[1:], p, dir, k) })
	}
	last := len(kids) - 1
	return m.m(kids[last], pos, dir, func(p int) bool { return m.cat(kids[:last], p, dir, k) })
}

func (m *specM) rep(n *specNode, count, pos, dir int, k func(int) bool) bool {
	more := func() bool {
		if n.max >= 0 && count >= n.max {
			return false
		}
		return m.m(n.kids[0], pos, dir, func(p int) bool {
			if p == pos && count >= n.min {
				return k(p)
			}
			return m.rep(n, count+1, p, dir, k)
		})
	}
	if n.lazy {
		if count >= n.min && k(pos) {
			return true
		}
		return more()
	}
	if more() {
		return true
	}
	if count >= n.min {
		return k(pos)
	}
	return false
}

// verifSpecFind returns the snapshot (same layout as verifSnap) of the match the
// reference search finds from start; ngroups is the largest group number.
func verifSpecFind(root *specNode, ngroups int, t []rune, start int, rtl bool) []int {
	nums := make([]int, ngroups)
	for i := range nums {
		nums[i] = i + 1
	}
	return verifSpecFindNums(root, nums, t, start, rtl)
}

// verifSpecFindNums: as verifSpecFind, the groups reported being those numbered nums[0], nums[1], ... in
// that order (sparse numbering: the order of Match.Groups is ascending group number).
func verifSpecFindNums(root *specNode, nums []int, t []rune, start int, rtl bool) []int {
	ngroups := len(nums)
	m := &specM{t: t, origin: start}
	try := func(p, dir int) []int {
		m.caps = m.caps[:0]
		end := -1
		if !m.m(root, p, dir, func(e int) bool { end = e; return true }) {
			return nil
		}
		s, e := p, end
		if e < s {
			s, e = e, s
		}
		snap := []int{s, e - s, ngroups + 1, 1, s, e - s}
		for _, g := range nums {
			cnt := 0
			for _, c := range m.caps {
				if c.g == g {
					cnt++
				}
			}
			snap = append(snap, cnt)
			for _, c := range m.caps {
				if c.g == g {
					snap = append(snap, c.s, c.l)
				}
			}
		}
		return snap
	}
	if !rtl {
		for p := start; p <= len(t); p++ {
			if r := try(p, 1); r != nil {
				return r
			}
		}
	} else {
		for p := start; p >= 0; p-- {
			if r := try(p, -1); r != nil {
				return r
			}
		}
	}
	return []int{-1}
}
