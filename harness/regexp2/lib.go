package regexp2

import "strconv"

// Shared harness helpers (overlay file; see /verif/DESIGN.md section 3).

var verifRE *Regexp

func verifText(n int) []rune {
	t := make([]rune, n)
	for i := range t {
		t[i] = verifRune("t" + strconv.Itoa(i))
	}
	return t
}

// verifSnap flattens a match into ints: [-1] for no match, else
// [index, length, ngroups, (ncaps, (index, length)*)*].
func verifSnap(m *Match) []int {
	if m == nil {
		return []int{-1}
	}
	s := []int{m.RuneIndex, m.RuneLength}
	gs := m.Groups()
	s = append(s, len(gs))
	for i := range gs {
		s = append(s, len(gs[i].Captures))
		for _, c := range gs[i].Captures {
			s = append(s, c.RuneIndex, c.RuneLength)
		}
	}
	return s
}

func verifEqInts(a, b []int) bool {
	if len(a) != len(b) {
		return false
	}
	for i := range a {
		if a[i] != b[i] {
			return false
		}
	}
	return true
}

func VerifSetup_spike() {
	verifRE = MustCompile(verifParam("pattern"), RegexOptions(verifParamInt("options")))
}

func VerifCheck_spike() {
	t := verifText(verifParamInt("n"))
	m, err := verifRE.FindRunesMatch(t)
	if err != nil {
		verifFail("err", err.Error())
	}
	verifNoteInts("snap", verifSnap(m))
	verifReach("end")
}
