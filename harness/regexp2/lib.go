package regexp2

import (
	"strconv"
)

// Shared harness helpers (overlay file; see /verif/DESIGN.md section 3).

var verifRE *Regexp
var verifRE2 *Regexp
var verifSpec *specNode
var verifNG int

func verifText(n int) []rune {
	t := make([]rune, n)
	for i := range t {
		t[i] = verifRune("t" + strconv.Itoa(i))
	}
	return t
}

func verifAssumeCaseSimple(t []rune) {
	for _, r := range t {
		verifAssume(verifCaseSimple(r))
	}
}

// verifSnap flattens a match into ints: [-1] for no match, else
// [index, length, ngroups, (ncaps, (index, length)*)*].
func verifSnap(m *Match) []int {
	if m == nil {
		return []int{-1}
	}
	s := []int{m.RuneIndex, m.RuneLength}
	gs := m.Groups()
	s = append(s, len(gs))
	for i := range gs {
		s = append(s, len(gs[i].Captures))
		for _, c := range gs[i].Captures {
			s = append(s, c.RuneIndex, c.RuneLength)
		}
	}
	return s
}

func verifEqInts(a, b []int) bool {
	if len(a) != len(b) {
		return false
	}
	for i := range a {
		if a[i] != b[i] {
			return false
		}
	}
	return true
}

func verifCompile(pattern string, options int, copts string) *Regexp {
	var co []CompileOption
	co = append(co, RegexOptions(options))
	for _, c := range copts {
		switch c {
		case 'g':
			co = append(co, OptionIsCodeGen())
		case 'b':
			co = append(co, OptionDisableCharClassASCIIBitmap())
		case 'o':
			co = append(co, OptionMaintainCaptureOrder())
		}
	}
	re, err := Compile(pattern, co...)
	if err != nil {
		panic("compile: " + err.Error())
	}
	return re
}

// verifNaiveScan runs the compiled program at every position in scan order with
// no candidate finder, no prefix filter, no minimum-length cut-off, and bumping
// by exactly one. origin is the \G origin / first position; prevLen is the length
// of the previous match (-1: none; 0: skip one position first).
func verifNaiveScan(re *Regexp, rt []rune, origin, prevLen int) (*Match, error) {
	r := re.getRunner()
	defer re.putRunner(r)
	r.timeout = re.MatchTimeout
	r.ignoreTimeout = true
	r.debug = false
	r.Runtextstart = origin
	r.Runtext = rt
	r.Runtextend = len(rt)
	stoppos, bump := len(rt), 1
	if re.RightToLeft() {
		stoppos, bump = 0, -1
	}
	pos := origin
	r.Runtextpos = pos
	r.initMatch(newMatchText(rt))
	if prevLen == 0 {
		if pos == stoppos {
			r.tidyMatch(true)
			return nil, nil
		}
		pos += bump
	}
	for {
		r.Runtextpos = pos
		if err := executeDefault(r); err != nil {
			return nil, err
		}
		if r.runmatch.matchcount[0] > 0 {
			return r.tidyMatch(false), nil
		}
		r.Runtrackpos = len(r.runtrack)
		r.Runstackpos = len(r.runstack)
		r.runcrawlpos = len(r.runcrawl)
		if pos == stoppos {
			r.tidyMatch(true)
			return nil, nil
		}
		pos += bump
	}
}

// verifAttemptAt runs the program once at position p (no scanning).
func verifAttemptAt(re *Regexp, rt []rune, origin, p int) (*Match, error) {
	r := re.getRunner()
	defer re.putRunner(r)
	r.timeout = re.MatchTimeout
	r.ignoreTimeout = true
	r.debug = false
	r.Runtextstart = origin
	r.Runtext = rt
	r.Runtextend = len(rt)
	r.Runtextpos = p
	r.initMatch(newMatchText(rt))
	if err := executeDefault(r); err != nil {
		return nil, err
	}
	if r.runmatch.matchcount[0] > 0 {
		return r.tidyMatch(false), nil
	}
	r.tidyMatch(true)
	return nil, nil
}

func verifStart(n int, rtl bool) int {
	if verifParam("fixstart") != "" {
		// long-text units: the start offset is the default one (the text is what is explored)
		if rtl {
			return n
		}
		return 0
	}
	s := verifConcrete(verifInt("start", 0, n))
	return s
}

// ---------------------------------------------------------------- C01 / C15

func VerifSetup_spec() {
	verifRE = verifCompile(verifParam("pattern"), verifParamInt("options"), verifParam("copts"))
	verifSpec = verifParseSpec(verifParam("ast"))
	verifNG = verifParamInt("ngroups")
}

func VerifCheck_spec() {
	n := verifParamInt("n")
	t := verifText(n)
	if verifParamInt("options")&int(IgnoreCase) != 0 || verifParamInt("anyi") != 0 {
		verifAssumeCaseSimple(t)
	}
	start := verifStart(n, verifRE.RightToLeft())
	m, err := verifRE.FindRunesMatchStartingAt(t, start)
	if err != nil {
		verifFail("error", err.Error())
	}
	got := verifSnap(m)
	want := verifSpecFind(verifSpec, verifNG, t, start, verifRE.RightToLeft())
	verifNoteInts("engine", got)
	verifNoteInts("spec", want)
	if m != nil {
		verifReach("match")
	} else {
		verifReach("nomatch")
	}
	verifAssert("engine==spec", verifEqInts(got, want))
	verifReach("end")
}

// ---------------------------------------------------------------- C03

func VerifSetup_accel() {
	verifRE = verifCompile(verifParam("pattern"), verifParamInt("options"), verifParam("copts"))
}

func VerifCheck_accel() {
	n := verifParamInt("n")
	t := verifText(n)
	start := verifStart(n, verifRE.RightToLeft())
	m, err := verifRE.FindRunesMatchStartingAt(t, start)
	if err != nil {
		verifFail("error", err.Error())
	}
	got := verifSnap(m)
	nm, err := verifNaiveScan(verifRE, t, start, -1)
	if err != nil {
		verifFail("error-naive", err.Error())
	}
	want := verifSnap(nm)
	verifNoteInts("find", got)
	verifNoteInts("naive", want)
	if m != nil {
		verifReach("match")
		if m.RuneIndex != start {
			verifReach("match-after-skip")
		}
	} else {
		verifReach("nomatch")
	}
	verifAssert("find==naive", verifEqInts(got, want))
	verifReach("end")
}

func VerifSetup_spike() {
	verifRE = MustCompile(verifParam("pattern"), RegexOptions(verifParamInt("options")))
}

func VerifCheck_spike() {
	t := verifText(verifParamInt("n"))
	m, err := verifRE.FindRunesMatch(t)
	if err != nil {
		verifFail("err", err.Error())
	}
	verifNoteInts("snap", verifSnap(m))
	verifReach("end")
}

// vacuity canary: must be reported as a violation (with t0='a', t1='b')
func VerifCheck_canary() {
	t := verifText(2)
	verifAssert("canary", !(t[0] == 'a' && t[1] == 'b'))
}

// debugging aid: concrete text
func VerifSetup_dbgcode() { VerifSetup_dbg() }

func VerifSetup_dbg() {
	verifRE = verifCompile(verifParam("pattern"), verifParamInt("options"), verifParam("copts"))
}

func VerifCheck_dbg() {
	t := []rune(verifParam("text"))
	m, _ := verifRE.FindRunesMatch(t)
	verifNoteInts("find", verifSnap(m))
	nm, _ := verifNaiveScan(verifRE, t, 0, -1)
	verifNoteInts("naive", verifSnap(nm))
}

func VerifCheck_dbgcode() {
	for i := range verifRE.code.Sets {
		verifNote(verifRE.code.Sets[i].String())
	}
	verifNoteInts("codes", verifRE.code.Codes)
}
