package regexp2

import (
	"strconv"
)

// ---------------------------------------------------------------- symbolic strings

// verifScalar: a symbolic Unicode scalar value (no surrogates), i.e. a rune of valid UTF-8.
func verifScalar(name string) rune {
	r := verifRune(name)
	verifAssume(verifOr(r < 0xD800, r > 0xDFFF))
	return r
}

func verifScalars(prefix string, n int) []rune {
	t := make([]rune, n)
	for i := range t {
		t[i] = verifScalar(prefix + strconv.Itoa(i))
	}
	return t
}

func verifBytes(prefix string, n int) []byte {
	b := make([]byte, n)
	for i := range b {
		b[i] = verifByte(prefix + strconv.Itoa(i))
	}
	return b
}

// ---------------------------------------------------------------- C19

func VerifCheck_escape() {
	n := verifParamInt("n")
	rs := verifScalars("s", n)
	s := string(rs)
	e := Escape(s)
	verifNote(e)
	u, err := Unescape(e)
	if err != nil {
		verifNote(err.Error())
		verifFail("Unescape-error", "Unescape(Escape(s)) failed")
	}
	verifNote(u)
	verifAssert("Unescape(Escape(s))==s", u == s)
	if e == s {
		verifReach("unchanged")
	} else {
		verifReach("escaped")
	}
	verifReach("end")
}

func VerifCheck_escapecompile() {
	n := verifParamInt("n")
	rs := verifScalars("s", n)
	s := string(rs)
	e := Escape(s)
	verifNote(e)
	re, err := Compile("^(?:"+e+")$", RegexOptions(verifParamInt("options")))
	if err != nil {
		verifNote(err.Error())
		verifFail("Escape-does-not-compile", "Compile(^(?:Escape(s))$) failed")
	}
	// matches exactly s: the text u is a second symbolic string
	k := verifParamInt("k")
	us := verifScalars("u", k)
	ok, err := re.MatchRunes(us)
	if err != nil {
		verifFail("error", err.Error())
	}
	same := len(us) == len(rs)
	if same {
		for i := range us {
			same = verifAnd(same, us[i] == rs[i])
		}
	}
	if ok {
		verifReach("match")
	} else {
		verifReach("nomatch")
	}
	verifAssert("matches-exactly-s", ok == same)
	verifReach("end")
}
