package regexp2

import (
	"strconv"
)

// ---------------------------------------------------------------- symbolic strings

// verifScalar: a symbolic Unicode scalar value (no surrogates), i.e. a rune of valid UTF-8.
func verifScalar(name string) rune {
	r := verifRune(name)
	verifAssume(verifOr(r < 0xD800, r > 0xDFFF))
	return r
}

func verifScalars(prefix string, n int) []rune {
	t := make([]rune, n)
	for i := range t {
		t[i] = verifScalar(prefix + strconv.Itoa(i))
	}
	return t
}

func verifBytes(prefix string, n int) []byte {
	b := make([]byte, n)
	for i := range b {
		b[i] = verifByte(prefix + strconv.Itoa(i))
	}
	return b
}

// ---------------------------------------------------------------- C19

func VerifCheck_escape() {
	n := verifParamInt("n")
	rs := verifScalars("s", n)
	s := string(rs)
	e := Escape(s)
	verifNote(e)
	u, err := Unescape(e)
	if err != nil {
		verifNote(err.Error())
		verifFail("Unescape-error", "Unescape(Escape(s)) failed")
	}
	verifNote(u)
	verifAssert("Unescape(Escape(s))==s", u == s)
	if e == s {
		verifReach("unchanged")
	} else {
		verifReach("escaped")
	}
	verifReach("end")
}

func VerifCheck_escapecompile() {
	n := verifParamInt("n")
	rs := verifScalars("s", n)
	s := string(rs)
	e := Escape(s)
	verifNote(e)
	re, err := Compile(`\A(?:`+e+`)\z`, RegexOptions(verifParamInt("options")))
	if err != nil {
		verifNote(err.Error())
		verifFail("Escape-does-not-compile", "Compile(^(?:Escape(s))$) failed")
	}
	// matches exactly s: the text u is a second symbolic string
	k := verifParamInt("k")
	us := verifScalars("u", k)
	ok, err := re.MatchRunes(us)
	if err != nil {
		verifFail("error", err.Error())
	}
	same := len(us) == len(rs)
	if same {
		for i := range us {
			same = verifAnd(same, us[i] == rs[i])
		}
	}
	if ok {
		verifReach("match")
	} else {
		verifReach("nomatch")
	}
	verifAssert("matches-exactly-s", ok == same)
	verifReach("end")
}

// verifSubject builds the subject string of a unit: mode "b" = n raw symbolic
// bytes (invalid UTF-8 included), mode "s" = n symbolic Unicode scalars encoded.
func verifSubject(n int) string {
	if verifParam("mode") == "b" {
		return string(verifBytes("b", n))
	}
	if ra := verifParam("runealphabet"); ra != "" {
		// subjects over a small alphabet of runes of different UTF-8 widths: each position is a solver
		// variable that indexes the alphabet
		tab := []rune(ra)
		ix := ""
		for i := range tab {
			ix += string(rune(i + 1))
		}
		rs := make([]rune, n)
		for i := range rs {
			rs[i] = tab[int(verifByteIn("r"+strconv.Itoa(i), ix))-1]
		}
		return string(rs)
	}
	if al := verifParam("alphabet"); al != "" {
		// longer subjects over a small ASCII alphabet (each byte a solver variable constrained to the set)
		b := make([]byte, n)
		for i := range b {
			b[i] = verifByteIn("a"+strconv.Itoa(i), al)
		}
		return string(b)
	}
	return string(verifScalars("t", n))
}

// verifByteOffsets: offs[i] = byte offset of rune i of s (each invalid byte is one rune); offs[len] = len(s).
func verifByteOffsets(s string) []int {
	var offs []int
	for i := range s {
		offs = append(offs, i)
	}
	return append(offs, len(s))
}

func verifSnapBytes(m *Match) []int {
	if m == nil {
		return []int{-1}
	}
	var out []int
	gs := m.Groups()
	for i := range gs {
		out = append(out, len(gs[i].Captures))
		for k := range gs[i].Captures {
			bi, bl := gs[i].Captures[k].ByteRange()
			out = append(out, bi, bl)
		}
	}
	return out
}

// ---------------------------------------------------------------- C02: entry points agree

func VerifSetup_entry() {
	verifRE = verifCompile(verifParam("pattern"), verifParamInt("options"), verifParam("copts"))
}

func VerifCheck_entry() {
	n := verifParamInt("n")
	s := verifSubject(n)
	re := verifRE
	rs := []rune(s)
	offs := verifByteOffsets(s)
	// boolean calls == find calls
	bs, err := re.MatchString(s)
	if err != nil {
		verifFail("error", err.Error())
	}
	br, err := re.MatchRunes(rs)
	if err != nil {
		verifFail("error", err.Error())
	}
	ms, err := re.FindStringMatch(s)
	if err != nil {
		verifFail("error", err.Error())
	}
	mr, err := re.FindRunesMatch(rs)
	if err != nil {
		verifFail("error", err.Error())
	}
	ss, sr := verifSnap(ms), verifSnap(mr)
	verifNoteInts("FindStringMatch", ss)
	verifNoteInts("FindRunesMatch", sr)
	if mr != nil {
		verifReach("match")
	} else {
		verifReach("nomatch")
	}
	verifAssert("MatchRunes==(FindRunesMatch!=nil)", br == (mr != nil))
	verifAssert("MatchString==(FindStringMatch!=nil)", bs == (ms != nil))
	verifAssert("MatchString==MatchRunes", bs == br)
	verifAssert("FindStringMatch==FindRunesMatch", verifEqInts(ss, sr))
	st := 0
	if re.RightToLeft() {
		st = len(s)
	}
	m0, err := re.FindStringMatchStartingAt(s, st)
	if err != nil {
		verifFail("error-startingat", err.Error())
	}
	verifAssert("FindStringMatchStartingAt(edge)==FindStringMatch", verifEqInts(verifSnap(m0), ss))
	rst := 0
	if re.RightToLeft() {
		rst = len(rs)
	}
	m1, err := re.FindRunesMatchStartingAt(rs, rst)
	if err != nil {
		verifFail("error-startingat", err.Error())
	}
	verifAssert("FindRunesMatchStartingAt(edge)==FindRunesMatch", verifEqInts(verifSnap(m1), sr))
	// interior start offsets: a byte offset on a rune boundary of the string equals the rune offset of the slice
	for k := 1; k < len(rs); k++ {
		a, err := re.FindStringMatchStartingAt(s, offs[k])
		if err != nil {
			verifFail("error-startingat", err.Error())
		}
		b, err := re.FindRunesMatchStartingAt(rs, k)
		if err != nil {
			verifFail("error-startingat", err.Error())
		}
		verifAssert("FindStringMatchStartingAt(byte k)==FindRunesMatchStartingAt(rune k)", verifEqInts(verifSnap(a), verifSnap(b)))
	}
	// byte ranges of the string match = rune spans mapped through the decode widths
	if ms != nil {
		bi, bl := ms.ByteRange()
		verifAssert("ByteRange==mapped-rune-span", bi == offs[ms.RuneIndex] && bi+bl == offs[ms.RuneIndex+ms.RuneLength])
	}
	// the match sequence as seen by iteration, find-all (runes and bytes), ReplaceFunc and Split
	var seq [][2]int
	var seqG1 []string // text of the first group of every match of the sequence (for the Replace leg below)
	for m := mr; m != nil; {
		seq = append(seq, [2]int{m.RuneIndex, m.RuneLength})
		if gs := m.Groups(); len(gs) > 1 {
			seqG1 = append(seqG1, gs[1].String())
		}
		if len(seq) > len(rs)+2 {
			verifFail("iteration-does-not-terminate", "")
		}
		m, err = re.FindNextMatch(m)
		if err != nil {
			verifFail("error", err.Error())
		}
	}
	var wantR, wantB []int
	prevEnd := -1
	for _, p := range seq {
		adj := p[0]
		if re.RightToLeft() {
			adj = p[0] + p[1]
		}
		if p[1] == 0 && adj == prevEnd {
			continue
		}
		wantR = append(wantR, p[0], p[0]+p[1])
		wantB = append(wantB, offs[p[0]], offs[p[0]+p[1]])
		if re.RightToLeft() {
			prevEnd = p[0]
		} else {
			prevEnd = p[0] + p[1]
		}
	}
	ar, err := re.FindAllRunesIndex(rs, -1)
	if err != nil {
		verifFail("error", err.Error())
	}
	var flat []int
	for _, p := range ar {
		flat = append(flat, p...)
	}
	verifAssert("FindAllRunesIndex==iteration", verifEqInts(flat, wantR))
	as, err := re.FindAllStringIndex(s, -1)
	if err != nil {
		verifFail("error", err.Error())
	}
	flat = nil
	for _, p := range as {
		flat = append(flat, p...)
	}
	verifNoteInts("FindAllStringIndex", flat)
	verifNoteInts("expected-bytes", wantB)
	verifAssert("FindAllStringIndex==iteration-in-bytes", verifEqInts(flat, wantB))
	if verifParam("mode") != "b" {
		var seen []int
		_, err = re.ReplaceFunc(s, func(m Match) string {
			seen = append(seen, m.RuneIndex, m.RuneLength)
			return ""
		}, -1, -1)
		if err != nil {
			verifFail("error-replacefunc", err.Error())
		}
		var want []int
		for _, p := range seq {
			want = append(want, p[0], p[1])
		}
		verifNoteInts("ReplaceFunc-saw", seen)
		verifAssert("ReplaceFunc-enumeration==iteration", verifEqInts(seen, want))
		if !re.RightToLeft() {
			parts, err := re.Split(s, -1)
			if err != nil {
				verifFail("error-split", err.Error())
			}
			ng := len(re.GetGroupNumbers()) - 1
			verifAssert("Split-piece-count", len(parts) == len(seq)*(1+ng)+1)
		}
	}
	// pattern-form Replace right after a bool-only call on the same Regexp (the pooled interpreter state was last
	// used with the capture-free program): it sees the same first match and the same captures
	// (valid UTF-8 subjects only: Replace re-encodes the text it keeps, so an invalid byte comes back as U+FFFD)
	if nums := re.GetGroupNumbers(); len(nums) > 1 && verifParam("mode") != "b" {
		if _, err := re.MatchString(s); err != nil {
			verifFail("error", err.Error())
		}
		got, err := re.Replace(s, "[$"+strconv.Itoa(nums[1])+"]", -1, 1)
		if err != nil {
			verifFail("error-replace", err.Error())
		}
		want := s
		if ms != nil {
			bi, bl := ms.ByteRange()
			want = s[:bi] + "[" + ms.GroupByNumber(nums[1]).String() + "]" + s[bi+bl:]
		}
		verifNote(got)
		verifNote(want)
		verifAssert("Replace-after-bool==first-match-captures", got == want)
		// ... and over the whole match sequence: every match replaced by [text of its first group]
		if len(seqG1) == len(seq) {
			all, err := re.Replace(s, "[$"+strconv.Itoa(nums[1])+"]", -1, -1)
			if err != nil {
				verifFail("error-replace", err.Error())
			}
			ord := make([]int, len(seq))
			for i := range ord {
				ord[i] = i
				if re.RightToLeft() {
					ord[i] = len(seq) - 1 - i // the sequence was found from the right; rebuild left to right
				}
			}
			wantAll, prev := "", 0
			for _, i := range ord {
				wantAll += string(rs[prev:seq[i][0]]) + "[" + seqG1[i] + "]"
				prev = seq[i][0] + seq[i][1]
			}
			wantAll += string(rs[prev:])
			verifAssert("Replace==fold-of-match-sequence-captures", all == wantAll)
		}
	}
	verifReach("end")
}

// ---------------------------------------------------------------- C08: well-formed matches, exact index conversion

func VerifSetup_wellformed() {
	verifRE = verifCompile(verifParam("pattern"), verifParamInt("options"), verifParam("copts"))
}

func VerifCheck_wellformed() {
	n := verifParamInt("n")
	s := verifSubject(n)
	re := verifRE
	rs := []rune(s)
	offs := verifByteOffsets(s)
	m, err := re.FindStringMatch(s)
	if err != nil {
		verifFail("error", err.Error())
	}
	cnt := 0
	var spans []int // byte spans of the matches, from ByteRange, minus empties adjacent to the preceding reported match
	prevEnd := -1
	for m != nil {
		bi0, bl0 := m.ByteRange()
		adj := m.RuneIndex
		if re.RightToLeft() {
			adj = m.RuneIndex + m.RuneLength
		}
		if !(m.RuneLength == 0 && adj == prevEnd) {
			spans = append(spans, bi0, bi0+bl0)
			if re.RightToLeft() {
				prevEnd = m.RuneIndex
			} else {
				prevEnd = m.RuneIndex + m.RuneLength
			}
		}
		cnt++
		if cnt > len(rs)+2 {
			verifFail("iteration-does-not-terminate", "")
		}
		verifReach("match")
		gs := m.Groups()
		verifAssert("group0-one-capture", len(gs) > 0 && len(gs[0].Captures) == 1 &&
			gs[0].Captures[0].RuneIndex == m.RuneIndex && gs[0].Captures[0].RuneLength == m.RuneLength)
		for gi := range gs {
			g := &gs[gi]
			for ci := range g.Captures {
				c := &g.Captures[ci]
				verifAssert("capture-in-bounds", c.RuneIndex >= 0 && c.RuneLength >= 0 && c.RuneIndex+c.RuneLength <= len(rs))
				want := rs[c.RuneIndex : c.RuneIndex+c.RuneLength]
				got := c.Runes()
				same := len(got) == len(want)
				if same {
					for i := range got {
						same = verifAnd(same, got[i] == want[i])
					}
				}
				verifAssert("Runes()==slice", same)
				verifAssert("String()==slice", c.String() == string(want))
				bi, bl := c.ByteRange()
				verifAssert("ByteRange==utf8-span", bi == offs[c.RuneIndex] && bi+bl == offs[c.RuneIndex+c.RuneLength])
				if verifParam("mode") == "b" {
					verifAssert("ByteRange-addresses-original-bytes", bi+bl <= len(s))
				}
			}
			if len(g.Captures) > 0 {
				last := &g.Captures[len(g.Captures)-1]
				verifAssert("embedded-capture==last", g.RuneIndex == last.RuneIndex && g.RuneLength == last.RuneLength)
				verifReach("group-with-capture")
			} else {
				verifAssert("unset-group-empty", g.RuneLength == 0)
			}
		}
		m, err = re.FindNextMatch(m)
		if err != nil {
			verifFail("error", err.Error())
		}
	}
	// the byte indexes of the find-all call are the same byte spans
	all, err := re.FindAllStringIndex(s, -1)
	if err != nil {
		verifFail("error", err.Error())
	}
	var flat []int
	for _, p := range all {
		flat = append(flat, p...)
	}
	verifNoteInts("FindAllStringIndex", flat)
	verifNoteInts("ByteRange-spans", spans)
	verifAssert("FindAllStringIndex==ByteRange-spans", verifEqInts(flat, spans))
	verifReach("end")
}

// ---------------------------------------------------------------- C09: Replace and Split are folds

func VerifSetup_replace() {
	verifRE = verifCompile(verifParam("pattern"), verifParamInt("options"), verifParam("copts"))
}

// verifExpand: independent expansion of a replacement pattern against one match.
// Grammar: $$ -> $; $& whole match; $` text before; $' text after; $+ last group; $_ whole input;
// $n / ${n} group number; ${name} group name; anything else literal.
func verifExpand(re *Regexp, rep string, m *Match, text []rune) string {
	out := ""
	gs := m.Groups()
	groupText := func(num int) (string, bool) {
		nums := re.GetGroupNumbers()
		for i, k := range nums {
			if k == num {
				if len(gs[i].Captures) == 0 {
					return "", true
				}
				c := gs[i].Captures[len(gs[i].Captures)-1]
				return string(text[c.RuneIndex : c.RuneIndex+c.RuneLength]), true
			}
		}
		return "", false
	}
	r := []rune(rep)
	for i := 0; i < len(r); i++ {
		if r[i] != '$' || i+1 >= len(r) {
			out += string(r[i])
			continue
		}
		c := r[i+1]
		switch {
		case c == '$':
			out += "$"
			i++
		case c == '&':
			out += string(text[m.RuneIndex : m.RuneIndex+m.RuneLength])
			i++
		case c == '`':
			out += string(text[:m.RuneIndex])
			i++
		case c == '\'':
			out += string(text[m.RuneIndex+m.RuneLength:])
			i++
		case c == '_':
			out += string(text)
			i++
		case c == '+':
			nums := re.GetGroupNumbers()
			last := nums[len(nums)-1]
			t, _ := groupText(last)
			out += t
			i++
		case c >= '0' && c <= '9':
			if re.options&ECMAScript != 0 {
				// ECMAScript: the longest run of digits that is the number of an existing group names it;
				// the remaining digits are literal text
				j, num := i+1, 0
				best, bestEnd := "", -1
				for j < len(r) && r[j] >= '0' && r[j] <= '9' && num < 100000 {
					num = num*10 + int(r[j]-'0')
					j++
					if t, ok := groupText(num); ok {
						best, bestEnd = t, j
					}
				}
				if bestEnd < 0 {
					out += "$"
					continue
				}
				out += best
				i = bestEnd - 1
				continue
			}
			// the whole decimal number names the group; an unknown number leaves the text literal
			j := i + 1
			num := 0
			for j < len(r) && r[j] >= '0' && r[j] <= '9' {
				num = num*10 + int(r[j]-'0')
				j++
			}
			t, ok := groupText(num)
			if !ok {
				out += "$"
				continue
			}
			out += t
			i = j - 1
		case c == '{':
			j := i + 2
			for j < len(r) && r[j] != '}' {
				j++
			}
			if j >= len(r) {
				out += "$"
				continue
			}
			name := string(r[i+2 : j])
			if name == "" {
				// ${} is not a reference: the text stays literal
				out += "$"
				continue
			}
			num, isNum := 0, name != ""
			for _, d := range name {
				if d < '0' || d > '9' {
					isNum = false
					break
				}
				num = num*10 + int(d-'0')
			}
			if !isNum {
				num = re.GroupNumberFromName(name)
			}
			t, ok := groupText(num)
			if num < 0 || !ok {
				out += "$"
				continue
			}
			out += t
			i = j
		default:
			out += "$"
		}
	}
	return out
}

func VerifCheck_replace() {
	n := verifParamInt("n")
	s := verifSubject(n) // n symbolic scalars, or (alphabet / runealphabet parameter) n symbols of a small alphabet
	re := verifRE
	rs := []rune(s)
	rep := verifParam("rep")
	if k := verifParamInt("repk"); k > 0 {
		// symbolic replacement over the $-grammar alphabet
		b := make([]byte, k)
		for i := range b {
			b[i] = verifByteIn("rep"+strconv.Itoa(i), "${}012a&`'+_x")
		}
		rep = string(b)
	}
	rtl := re.RightToLeft()
	startAt := verifConcrete(verifInt("startAt", -1, len(s)))
	count := verifConcrete(verifInt("count", -1, 2))
	got, err := re.Replace(s, rep, startAt, count)
	if err != nil {
		// only a malformed startAt may be rejected
		verifNote(err.Error())
		verifReach("replace-error")
		ok := false
		for i := range s {
			if i == startAt {
				ok = true
			}
		}
		verifAssert("error-only-for-misaligned-startAt", !ok && startAt != len(s) && startAt != -1)
		return
	}
	if count == 0 {
		verifAssert("Replace(count=0)==input", got == s)
		verifReach("end")
		return
	}
	// fold over the match sequence
	st := startAt
	m, err := re.FindStringMatchStartingAt(s, st)
	if err != nil {
		verifFail("error-find", err.Error())
	}
	type piece struct {
		idx, ln int
		exp     string
		groups  []string // texts of groups 1.. of this match (what Split interleaves)
	}
	var ps []piece
	for m != nil && (count < 0 || len(ps) < count) {
		var gt []string
		for gi, g := range m.Groups() {
			if gi > 0 {
				gt = append(gt, g.String())
			}
		}
		ps = append(ps, piece{m.RuneIndex, m.RuneLength, verifExpand(re, rep, m, rs), gt})
		if len(ps) > len(rs)+2 {
			verifFail("iteration-does-not-terminate", "")
		}
		m, err = re.FindNextMatch(m)
		if err != nil {
			verifFail("error-find", err.Error())
		}
	}
	if rtl {
		for i, j := 0, len(ps)-1; i < j; i, j = i+1, j-1 {
			ps[i], ps[j] = ps[j], ps[i]
		}
	}
	want := ""
	prev := 0
	for _, p := range ps {
		want += string(rs[prev:p.idx]) + p.exp
		prev = p.idx + p.ln
	}
	want += string(rs[prev:])
	if count == 0 {
		want = s
	}
	verifNote(got)
	verifNote(want)
	if len(ps) > 0 {
		verifReach("replaced")
	} else {
		verifReach("nothing-replaced")
	}
	verifAssert("Replace==fold", got == want)
	// ReplaceFunc with the same expansion
	gf, err := re.ReplaceFunc(s, func(mm Match) string { return verifExpand(re, rep, &mm, rs) }, startAt, count)
	if err != nil {
		verifFail("error-replacefunc", err.Error())
	}
	verifAssert("ReplaceFunc==Replace", gf == got)
	// $& is the identity
	id, err := re.Replace(s, "$&", startAt, count)
	if err != nil {
		verifFail("error-identity", err.Error())
	}
	verifAssert("Replace($&)==input", id == s)
	// Split: pieces re-joined with the matched texts rebuild the input
	if startAt == -1 && count == -1 {
		parts, err := re.Split(s, -1)
		if err != nil {
			verifFail("error-split", err.Error())
		}
		ng := len(re.GetGroupNumbers()) - 1
		verifAssert("Split-piece-count", len(parts) == len(ps)*(1+ng)+1)
		if len(parts) == len(ps)*(1+ng)+1 {
			re2 := ""
			groupsOK := true
			for i, p := range ps {
				re2 += parts[i*(1+ng)] + string(rs[p.idx:p.idx+p.ln])
				for gi := 0; gi < ng && gi < len(p.groups); gi++ {
					groupsOK = verifAnd(groupsOK, parts[i*(1+ng)+1+gi] == p.groups[gi])
				}
			}
			re2 += parts[len(parts)-1]
			verifAssert("Split-rejoin==input", re2 == s)
			verifAssert("Split-group-pieces==captures", groupsOK)
			verifReach("split-leg")
		}
		// with a count: the pieces are still texts-between + groups of a prefix (in scan order) of the match
		// sequence, and re-join to the input
		for _, k := range []int{0, 1, 2, 3} {
			kp, err := re.Split(s, k)
			if err != nil {
				verifFail("error-split", err.Error())
			}
			if k == 0 {
				verifAssert("Split(count=0)==nil", len(kp) == 0)
				continue
			}
			if (len(kp)-1)%(1+ng) != 0 {
				verifFail("Split(count)-piece-count", "")
			}
			used := (len(kp) - 1) / (1 + ng)
			verifAssert("Split(count)-uses-at-most-all-matches", used <= len(ps))
			if used <= len(ps) {
				sel := ps[:used]
				if rtl {
					sel = ps[len(ps)-used:] // right-to-left: the matches nearest the end come first
				}
				re3 := ""
				for i, p := range sel {
					re3 += kp[i*(1+ng)] + string(rs[p.idx:p.idx+p.ln])
				}
				re3 += kp[len(kp)-1]
				verifAssert("Split(count)-rejoin==input", re3 == s)
			}
		}
	}
	verifReach("end")
}

// ---------------------------------------------------------------- C10: no panic, no hang

// verifExercise runs the match APIs of re on text; any Go run-time panic escapes to the engine.
func verifExercise(re *Regexp, s string) {
	rs := []rune(s)
	if _, err := re.MatchString(s); err != nil {
		verifExpectedErr(err)
	}
	m, err := re.FindStringMatch(s)
	if err != nil {
		verifExpectedErr(err)
	}
	for i := 0; m != nil && i < len(rs)+2; i++ {
		_ = m.String()
		gs := m.Groups()
		for gi := range gs {
			_ = gs[gi].String()
			gs[gi].ByteRange()
		}
		m, err = re.FindNextMatch(m)
		if err != nil {
			verifExpectedErr(err)
		}
	}
	if _, err := re.FindRunesMatch(rs); err != nil {
		verifExpectedErr(err)
	}
	if _, err := re.FindAllStringIndex(s, -1); err != nil {
		verifExpectedErr(err)
	}
	if _, err := re.Replace(s, "<$1$&>", -1, -1); err != nil {
		verifExpectedErr(err)
	}
	if _, err := re.Split(s, -1); err != nil {
		verifExpectedErr(err)
	}
}

func verifExpectedErr(err error) {
	if err == ErrBacktrackingStackLimit {
		return
	}
	verifNote(err.Error())
	verifFail("unexpected-error", "an error other than timeout / stack limit / documented argument error")
}

// pattern = seed with the bytes at the given positions replaced by symbolic bytes
func VerifCheck_mutate() {
	seed := verifParam("pattern")
	b := []byte(seed)
	for i, ps := range verifSplitComma(verifParam("positions")) {
		p := verifAtoi(ps)
		if p < len(b) {
			b[p] = verifByte("m" + strconv.Itoa(i))
		}
	}
	opts := verifParamInt("options")
	var ro RegexOptions
	if verifParam("symmask") != "" {
		// the option subset is a solver variable over the defined option bits
		mk := verifInt("mask", 0, 0x7ff)
		verifAssume(mk&^(0x1|0x2|0x4|0x10|0x20|0x40|0x100|0x200|0x400) == 0)
		ro = RegexOptions(mk)
	} else {
		ro = RegexOptions(opts)
	}
	co := []CompileOption{ro}
	if verifParam("copts") == "b" {
		co = append(co, OptionDisableCharClassASCIIBitmap())
	}
	re, err := Compile(string(b), co...)
	if err != nil {
		verifReach("parse-error")
		return
	}
	verifReach("compiled")
	for _, s := range verifSplitComma(verifParam("texts")) {
		verifExercise(re, s)
	}
	if k := verifParamInt("symtext"); k > 0 {
		verifExercise(re, string(verifBytes("t", k)))
	}
	verifReach("end")
}

// API arguments: fixed pattern, symbolic subject bytes, out-of-range offsets and counts
func VerifSetup_args() {
	verifRE = verifCompile(verifParam("pattern"), verifParamInt("options"), verifParam("copts"))
}

func verifArgErr(err error) {
	if err == nil || err == ErrBacktrackingStackLimit {
		return
	}
	// documented argument errors are returned as errors, never as panics
	verifReach("argument-error")
}

func VerifCheck_args() {
	n := verifParamInt("n")
	s := string(verifBytes("b", n))
	rs := []rune(s)
	re := verifRE
	startAt := verifConcrete(verifInt("startAt", -2, n+2))
	count := verifConcrete(verifInt("count", -2, 2))
	m, err := re.FindStringMatchStartingAt(s, startAt)
	verifArgErr(err)
	if m != nil {
		_ = m.String()
		m.ByteRange()
	}
	m, err = re.FindRunesMatchStartingAt(rs, startAt)
	verifArgErr(err)
	if m != nil {
		verifReach("match")
		_ = m.String()
		_ = m.Runes()
		gs := m.Groups()
		for gi := range gs {
			_ = gs[gi].String()
		}
		_, err = re.FindNextMatch(m)
		verifArgErr(err)
	}
	_, err = re.Replace(s, verifParam("rep"), startAt, count)
	verifArgErr(err)
	_, err = re.ReplaceFunc(s, func(m Match) string { return m.String() }, startAt, count)
	verifArgErr(err)
	_, err = re.Split(s, count)
	verifArgErr(err)
	_, err = re.FindAllStringIndex(s, count)
	verifArgErr(err)
	_, err = re.FindAllRunesIndex(rs, count)
	verifArgErr(err)
	verifReach("end")
}

// Escape / Unescape / replacement parsing on arbitrary bytes
func VerifCheck_argsescape() {
	n := verifParamInt("n")
	s := string(verifBytes("b", n))
	part := verifParam("part") // "" = all three on the same bytes; else one of them (deeper n)
	if part == "" || part == "esc" {
		_ = Escape(s)
	}
	if part == "" || part == "unesc" {
		if _, err := Unescape(s); err != nil {
			verifReach("unescape-error")
		}
	}
	if part == "" || part == "repl" {
		re := verifRE
		if _, err := re.Replace("ab", s, -1, -1); err != nil {
			verifReach("replacement-error")
		}
	}
	verifReach("end")
}

func VerifSetup_argsescape() { VerifSetup_args() }
