package regexp2

import (
	"strconv"

	"github.com/dlclark/regexp2/v2/syntax"
)

// ---------------------------------------------------------------- C12: results independent of call history

var verifHA, verifHB, verifHL, verifHFresh *Regexp

func VerifSetup_history() {
	o := verifParamInt("options")
	verifHA = verifCompile(verifParam("pattern"), o, verifParam("copts"))
	verifHFresh = verifCompile(verifParam("pattern"), o, verifParam("copts"))
	verifHB = verifCompile(verifParam("pattern_b"), 0, "")
	// a Regexp whose matches run into a small backtracking stack limit
	verifHL = MustCompile(`(?:(a)|b)*c`, OptionMaxBacktrackingStackSize(40))
}

// verifOp runs one API call and returns a flat description of its result.
// Strings in results are compared as strings (symbolic bytes allowed).
type verifOpResult struct {
	ints []int
	strs []string
	err  bool
}

func verifRunOp(re *Regexp, op string, s string) verifOpResult {
	var r verifOpResult
	switch op {
	case "ms":
		b, err := re.MatchString(s)
		r.err = err != nil
		if b {
			r.ints = []int{1}
		} else {
			r.ints = []int{0}
		}
	case "mr":
		b, err := re.MatchRunes([]rune(s))
		r.err = err != nil
		if b {
			r.ints = []int{1}
		} else {
			r.ints = []int{0}
		}
	case "fs":
		m, err := re.FindStringMatch(s)
		r.err = err != nil
		for k := 0; m != nil && k < 8; k++ {
			r.ints = append(r.ints, verifSnap(m)...)
			r.ints = append(r.ints, -7)
			m, err = re.FindNextMatch(m)
			if err != nil {
				r.err = true
			}
		}
	case "fa":
		a, err := re.FindAllStringIndex(s, -1)
		r.err = err != nil
		for _, p := range a {
			r.ints = append(r.ints, p...)
		}
	case "rp":
		out, err := re.Replace(s, "<$1|$&>", -1, -1)
		r.err = err != nil
		r.strs = []string{out}
	case "rq":
		// a second replacement pattern (exercises the replacement cache)
		out, err := re.Replace(s, "[$&$1]", -1, 1)
		r.err = err != nil
		r.strs = []string{out}
	case "rf":
		out, err := re.ReplaceFunc(s, func(m Match) string { return "(" + m.String() + ")" }, -1, -1)
		r.err = err != nil
		r.strs = []string{out}
	case "sp":
		parts, err := re.Split(s, -1)
		r.err = err != nil
		r.strs = parts
	default:
		panic("unknown op " + op)
	}
	return r
}

func verifSameResult(a, b verifOpResult) bool {
	if a.err != b.err || !verifEqInts(a.ints, b.ints) || len(a.strs) != len(b.strs) {
		return false
	}
	ok := true
	for i := range a.strs {
		ok = verifAnd(ok, a.strs[i] == b.strs[i])
	}
	return ok
}

func verifHistText(prefix string, n int, pad int) string {
	var s string
	if prefix == "t" {
		s = string(verifScalars(prefix, n))
	} else {
		// history texts: symbolic ASCII (one UTF-8 width class keeps the path count down)
		rs := make([]rune, n)
		for i := range rs {
			rs[i] = verifRuneIn(prefix+"_"+strconv.Itoa(i), 0, 127)
		}
		s = string(rs)
	}
	if pad > 0 {
		// concrete padding so that sizes cross the pooled buffer classes (1K / 4K runes)
		p := make([]byte, pad)
		for i := range p {
			p[i] = "xyz "[i%4]
		}
		s = string(p) + s
	}
	return s
}

func VerifCheck_history() {
	n := verifParamInt("n")
	hist := verifSplitComma(verifParam("history"))
	// the history: earlier calls on the same Regexp, on another Regexp sharing the global
	// pools, and on a Regexp that runs into its stack limit
	for i, h := range hist {
		if h == "" {
			continue
		}
		txt := verifHistText("h"+strconv.Itoa(i), verifParamInt("hn"), verifParamInt("pad"+strconv.Itoa(i)))
		switch {
		case h == "selflim":
			// the same Regexp runs into its own stack limit (after inner groups have captured), then
			// serves the final call: both it and the fresh Regexp carry the limit
			verifHA.optimizations.MaxBacktrackingStackSize = 48
			verifHFresh.optimizations.MaxBacktrackingStackSize = 48
			_, err := verifHA.MatchString(verifParam("limtext"))
			if err == ErrBacktrackingStackLimit {
				verifReach("history-hit-own-limit")
			}
		case h == "r17":
			// more distinct replacement patterns than the per-Regexp cache holds (16): the first ones are
			// evicted, among them the two the final calls use
			for k := 0; k < 18; k++ {
				rep := "<$1|$&>"
				if k == 1 {
					rep = "[$&$1]"
				} else if k > 1 {
					rep = "{" + strconv.Itoa(k) + "$&$1}"
				}
				if _, err := verifHA.Replace("ab", rep, -1, -1); err != nil {
					verifFail("error-history", err.Error())
				}
			}
			verifReach("history-cache-overflow")
		case h == "lim":
			_, err := verifHL.MatchString("ababababababababababababababababc")
			if err == ErrBacktrackingStackLimit {
				verifReach("history-hit-limit")
			}
		case len(h) > 2 && h[:2] == "b:":
			verifRunOp(verifHB, h[2:], txt)
		default:
			verifRunOp(verifHA, h, txt)
		}
	}
	if verifParam("havoc") != "" {
		// one inductive step from an arbitrary recycled state: everything a later call is
		// supposed not to trust in the pooled runner is replaced by fresh symbolic values
		r := verifHA.getRunner()
		for i := range r.runtrack {
			r.runtrack[i] = verifInt("trk"+strconv.Itoa(i), -1000, 1000)
		}
		for i := range r.runstack {
			r.runstack[i] = verifInt("stk"+strconv.Itoa(i), -1000, 1000)
		}
		for i := range r.runcrawl {
			r.runcrawl[i] = verifInt("crl"+strconv.Itoa(i), -1000, 1000)
		}
		r.Runtextpos = verifInt("hv_textpos", -5, 50)
		r.Runtextstart = verifInt("hv_textstart", -5, 50)
		r.codepos = verifInt("hv_codepos", 0, len(r.code.Codes)-1)
		// the decoded operator and its direction / case flags are scratch state of the last executed opcode
		// (an aborted scan stops on any opcode), the stack pointers are wherever the abort left them
		r.rightToLeft = verifBool("hv_rtl")
		r.caseInsensitive = verifBool("hv_ci")
		r.operator = syntax.InstOp(verifInt("hv_op", 0, 40))
		r.Runtrackpos = verifInt("hv_trackpos", 0, len(r.runtrack))
		r.Runstackpos = verifInt("hv_stackpos", 0, len(r.runstack))
		r.runcrawlpos = verifInt("hv_crawlpos", 0, len(r.runcrawl))
		r.Runtextend = verifInt("hv_textend", -5, 50)
		if r.runmatch != nil {
			for g := range r.runmatch.matches {
				for k := range r.runmatch.matches[g] {
					r.runmatch.matches[g][k] = verifInt("mt"+strconv.Itoa(g)+"_"+strconv.Itoa(k), -5, 50)
				}
			}
			// capture counts and the balancing flag are whatever an aborted scan (stack limit, timeout)
			// left behind: any count the slice lengths allow
			for g := range r.runmatch.matchcount {
				r.runmatch.matchcount[g] = verifInt("mc"+strconv.Itoa(g), 0, len(r.runmatch.matches[g])/2)
			}
			r.runmatch.balancing = verifBool("hv_bal")
			r.runmatch.RuneIndex = verifInt("hv_ri", -5, 50)
			r.runmatch.RuneLength = verifInt("hv_rl", -5, 50)
			r.runmatch.textpos = verifInt("hv_tp", -5, 50)
			verifReach("havoc-runmatch")
		}
		verifHA.putRunner(r)
		verifReach("havoc")
	}
	op := verifParam("op")
	txt := verifHistText("t", n, verifParamInt("pad"))
	got := verifRunOp(verifHA, op, txt)
	want := verifRunOp(verifHFresh, op, txt)
	verifNoteInts("after-history", got.ints)
	verifNoteInts("fresh", want.ints)
	for _, s := range got.strs {
		verifNote(s)
	}
	for _, s := range want.strs {
		verifNote(s)
	}
	verifAssert("result==fresh-regexp", verifSameResult(got, want))
	verifReach("end")
}
