package regexp2

import (
	"strconv"
	"time"
)

// ---------------------------------------------------------------- C11: concurrent use == sequential use

func VerifSetup_conc() {
	o := verifParamInt("options")
	verifHA = verifCompile(verifParam("pattern"), o, verifParam("copts"))
	verifHFresh = verifCompile(verifParam("pattern"), o, verifParam("copts"))
	verifHB = verifCompile(verifParam("pattern_b"), 0, "")
}

func VerifCheck_conc() {
	n := verifParamInt("n")
	ops := verifSplitComma(verifParam("ops")) // one op per goroutine; "b:" prefix = on the second Regexp
	txts := make([]string, len(ops))
	for i := range ops {
		rs := make([]rune, n)
		for k := range rs {
			rs[k] = verifRuneIn("g"+strconv.Itoa(i)+"_"+strconv.Itoa(k), 0, 127)
		}
		txts[i] = string(rs)
		if ft := verifParam("text"); ft != "" {
			txts[i] = ft + txts[i] // a concrete run in front of the symbolic runes (patterns that need long texts)
		}
	}
	res := make([]verifOpResult, len(ops))
	verifConcurrent(verifParamInt("preempt"), true, func() {
		for i := range ops {
			i := i
			verifGo(func() {
				op, re := ops[i], verifHA
				if len(op) > 2 && op[:2] == "b:" {
					op, re = op[2:], verifHB
				}
				res[i] = verifRunOp(re, op, txts[i])
			})
		}
	})
	// each call returned what it returns alone (on a Regexp nobody else uses)
	for i := range ops {
		op, p := ops[i], verifParam("pattern")
		if len(op) > 2 && op[:2] == "b:" {
			op, p = op[2:], verifParam("pattern_b")
		}
		_ = p
		var want verifOpResult
		if len(ops[i]) > 2 && ops[i][:2] == "b:" {
			want = verifRunOp(verifCompile(verifParam("pattern_b"), 0, ""), op, txts[i])
		} else {
			want = verifRunOp(verifHFresh, op, txts[i])
		}
		verifNoteInts("concurrent", res[i].ints)
		verifNoteInts("alone", want.ints)
		verifAssert("concurrent==alone", verifSameResult(res[i], want))
	}
	verifReach("end")
}

// ---------------------------------------------------------------- C14: timeouts

var verifClockREs = map[time.Duration]*Regexp{}

// verifClockRE: one Regexp per timeout value for the whole history (its pooled runner carries state from
// event to event), a pattern that is catastrophic on a run of a's without a b
func verifClockRE(d time.Duration) *Regexp {
	if re, ok := verifClockREs[d]; ok {
		return re
	}
	re := MustCompile(`(a+)+b`)
	re.MatchTimeout = d
	verifClockREs[d] = re
	return re
}

func VerifCheck_clock() {
	period := time.Duration(verifParamInt("period_ns"))
	jit := int64(verifParamInt("jitter_ns"))
	tick := int64(1 << 20)
	hist := verifSplitComma(verifParam("history"))
	pre := verifParamInt("preempt")
	verifClockREs = map[time.Duration]*Regexp{}
	verifConcurrent(0, false, func() {
		clockPeriod = period
		d := time.Duration(verifIntSet("d", verifParam("ddom")))
		p := int64(period)
		for i, ev := range hist {
			switch ev {
			case "timed":
				// a timed match: deadline made now, polled at an arbitrary later instant
				t0 := verifNow()
				verifPreempt(pre) // the clock goroutine may run between any two synchronisation operations of makeDeadline
				dl := makeDeadline(d)
				verifPreempt(0)
				wd := verifParam("waitdom")
				if w0 := verifParam("waitdom_first"); w0 != "" && i != verifParamInt("last_timed") {
					wd = w0
				}
				wv := verifIntSet("wait"+strconv.Itoa(i), wd)
				if verifParam("waitconcrete") != "" {
					// the polling instant is case-split over a list of instants (every tick boundary, one
					// nanosecond after it, the middle of the interval, one nanosecond before the next): the
					// published time only changes at ticks, so later instants of the history stay concrete
					wv = verifConcrete(wv)
				}
				wait := time.Duration(wv)
				time.Sleep(wait)
				r := dl.reached()
				t1 := verifNow()
				el := t1 - t0
				if r {
					verifReach("timeout-fired")
					// no early / false timeout, whatever state the clock was left in
					verifAssert("no-early-timeout", el >= int64(d)-(p+jit+2*tick))
				} else {
					verifReach("no-timeout")
					// it does fire
					verifAssert("timeout-fires", el < int64(d)+3*p+2*jit+2*tick)
				}
			case "match", "match-after-gap":
				// a real timed match that cannot finish in time: every deadline poll of the matcher costs
				// poll_cost_ns of virtual time (the interpreter lets it pass before (*Runner).CheckTimeout runs)
				re := verifClockRE(d)
				t0 := verifNow()
				_, err := re.MatchString("aaaaaaaaaaaab"[:12])
				el := verifNow() - t0
				verifNoteInts("match-elapsed", []int{int(el)})
				verifAssert("long-match-times-out", err != nil)
				verifAssert("no-early-timeout/match", el >= int64(d)-(p+jit+2*tick))
				verifAssert("timeout-fires/match", el < int64(d)+3*p+2*jit+2*tick+int64(verifParamInt("poll_cost_ns")))
				verifReach("real-match-timed-out")
			case "quickmatch":
				// a match that finishes at once never reports a timeout
				re := verifClockRE(d)
				ok, err := re.MatchString("aab")
				if err != nil {
					verifNote(err.Error())
				}
				verifAssert("no-false-timeout/quickmatch", err == nil && ok)
			case "iterate-slow":
				// the caller takes longer than the timeout between two matches of an iteration: every step
				// of the iteration has its own deadline
				re := verifClockRE(d)
				m, err := re.FindStringMatch("ab ab ab")
				if err != nil {
					verifNote(err.Error())
				}
				verifAssert("iterate/first", err == nil && m != nil)
				time.Sleep(2*d + 3*period)
				m2, err := re.FindNextMatch(m)
				verifAssert("iterate/next-after-slow-caller", err == nil && m2 != nil && m2.RuneIndex == 3)
				all, err := re.FindAllStringIndex("ab ab ab", -1)
				verifAssert("iterate/findall", err == nil && len(all) == 3)
			case "idle-most":
				time.Sleep(d - d/10)
			case "conc2":
				// two timed matches with different timeouts start at the same moment in two goroutines
				d2 := d + 1500*time.Millisecond
				var dl1, dl2 fasttime
				verifPreempt(2) // pre-emptions only while the two deadlines are being made
				verifGo(func() { dl1 = makeDeadline(d) })
				verifGo(func() { dl2 = makeDeadline(d2) })
				verifWaitAll()
				verifPreempt(0)
				verifAssert("no-false-timeout-concurrent", !dl1.reached() && !dl2.reached())
				time.Sleep(d2 + 3*period + time.Duration(4*jit))
				verifAssert("concurrent-deadlines-both-fire", dl1.reached() && dl2.reached())
				verifReach("concurrent-deadlines")
			case "quick":
				// a match that finishes well inside d never reports a timeout
				dl := makeDeadline(d)
				verifAssert("no-false-timeout", !dl.reached())
			case "idle-short":
				time.Sleep(d / 2)
			case "idle-long":
				time.Sleep(d + time.Second + 3*period)
			case "idle-verylong":
				// long enough for the clock goroutine to have exited AND for more than its slop to pass after that
				time.Sleep(2*d + 3*time.Second + 8*period)
			case "stop":
				StopTimeoutClock()
				fast.mu.Lock()
				running := fast.running
				fast.mu.Unlock()
				verifAssert("stopClock-stops", !running)
			}
		}
		// the clock goroutine exits once all deadlines have passed
		time.Sleep(d + time.Second + 4*period + time.Duration(4*jit))
		fast.mu.Lock()
		running := fast.running
		fast.mu.Unlock()
		verifAssert("clock-goroutine-exits", !running)
		// and is restarted on demand
		dl := makeDeadline(d)
		fast.mu.Lock()
		running = fast.running
		fast.mu.Unlock()
		verifAssert("clock-restarts", running)
		verifAssert("no-false-timeout-after-restart", !dl.reached())
		StopTimeoutClock()
	})
	verifReach("end")
}
