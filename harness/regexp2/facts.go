package regexp2

import (
	"unicode"

	"github.com/dlclark/regexp2/v2/syntax"
)

// ---------------------------------------------------------------- C04: compile-time facts

func VerifSetup_facts() {
	verifRE = verifCompile(verifParam("pattern"), verifParamInt("options"), verifParam("copts"))
}

func verifAsciiFoldEq(a, b rune) bool {
	// ordinal ignore-case as used by the leading-string searches: ASCII letters fold
	la, lb := a, b
	if la >= 'A' && la <= 'Z' {
		la += 32
	}
	if lb >= 'A' && lb <= 'Z' {
		lb += 32
	}
	return la == lb
}

// verifPrefixAt: t[p:p+len(s)] == s (ci: ASCII-folded), as one condition.
func verifPrefixAt(t []rune, p int, s []rune, ci bool) bool {
	if p < 0 || p+len(s) > len(t) {
		return false
	}
	ok := true
	for i, c := range s {
		if ci {
			ok = verifAnd(ok, verifSumFoldEq(c, t[p+i]))
		} else {
			ok = verifAnd(ok, t[p+i] == c)
		}
	}
	return ok
}

func verifSumFoldEq(c, x rune) bool { return verifAsciiFoldEq(c, x) }

func verifEndZ(t []rune, p int) bool {
	n := len(t)
	if p == n {
		return true
	}
	if p == n-1 {
		return t[n-1] == '\n'
	}
	return false
}

func verifBol(t []rune, p int) bool {
	if p == 0 {
		return true
	}
	return t[p-1] == '\n'
}

func verifAnchorFact(a syntax.NodeType, t []rune, p, origin int) bool {
	switch a {
	case syntax.NtBeginning:
		return p == 0
	case syntax.NtStart:
		return p == origin
	case syntax.NtEnd:
		return p == len(t)
	case syntax.NtEndZ:
		return verifEndZ(t, p)
	case syntax.NtBol:
		return verifBol(t, p)
	}
	return true
}

func VerifCheck_facts() {
	n := verifParamInt("n")
	t := verifText(n)
	re := verifRE
	rtl := re.RightToLeft()
	origin := 0
	if rtl {
		origin = n
	}
	code := re.code
	fo := code.FindOptimizations
	for p := 0; p <= n; p++ {
		m, err := verifAttemptAt(re, t, origin, p)
		if err != nil {
			verifFail("error", err.Error())
		}
		if m == nil {
			continue
		}
		verifReach("match")
		s, e := m.RuneIndex, m.RuneIndex+m.RuneLength
		verifNoteInts("match-at", []int{p, s, e})
		if fo != nil {
			if !rtl {
				verifAssert("MinRequiredLength", n-p >= fo.MinRequiredLength)
			} else {
				verifAssert("MinRequiredLength", p >= fo.MinRequiredLength)
			}
			if fo.MaxPossibleLength >= 0 {
				verifAssert("MaxPossibleLength", e-s <= fo.MaxPossibleLength)
			}
			verifAssert("LeadingAnchor", verifAnchorFact(fo.LeadingAnchor, t, p, origin))
			if !rtl {
				switch fo.TrailingAnchor {
				case syntax.NtEnd:
					verifAssert("TrailingAnchor", e == n)
				case syntax.NtEndZ:
					verifAssert("TrailingAnchor", verifEndZ(t, e))
				}
			}
			if fo.LeadingPrefix != "" {
				verifReach("fact:LeadingPrefix")
				pr := []rune(fo.LeadingPrefix)
				ci := fo.FindMode == syntax.LeadingString_OrdinalIgnoreCase_LeftToRight
				if !rtl {
					verifAssert("LeadingPrefix", verifPrefixAt(t, p, pr, ci))
				} else {
					verifAssert("LeadingPrefix", verifPrefixAt(t, p-len(pr), pr, ci))
				}
			}
			if len(fo.LeadingPrefixes) > 0 {
				verifReach("fact:LeadingPrefixes")
				ci := fo.FindMode == syntax.LeadingStrings_OrdinalIgnoreCase_LeftToRight
				any := false
				for _, ps := range fo.LeadingPrefixes {
					any = verifOr(any, verifPrefixAt(t, p, []rune(ps), ci))
				}
				verifAssert("LeadingPrefixes", any)
			}
			for _, fs := range fo.FixedDistanceSets {
				verifReach("fact:FixedDistanceSets")
				q := p + fs.Distance
				if rtl {
					q = p - 1 - fs.Distance
				}
				if q < 0 || q >= n {
					verifFail("FixedDistanceSets", "set position outside the text at a match")
				}
				verifAssert("FixedDistanceSets", verifInFixedSet(fs, t[q]))
			}
			switch fo.FindMode {
			case syntax.FixedDistanceChar_LeftToRight:
				verifReach("fact:FixedDistanceChar")
				q := p + fo.FixedDistanceLiteral.Distance
				verifAssert("FixedDistanceChar", q < n && t[q] == fo.FixedDistanceLiteral.C)
			case syntax.FixedDistanceString_LeftToRight:
				verifReach("fact:FixedDistanceString")
				verifAssert("FixedDistanceString", verifPrefixAt(t, p+fo.FixedDistanceLiteral.Distance, []rune(fo.FixedDistanceLiteral.S), false))
			case syntax.LeadingChar_RightToLeft:
				verifReach("fact:LeadingChar_RTL")
				verifAssert("LeadingChar_RightToLeft", p > 0 && t[p-1] == fo.FixedDistanceLiteral.C)
			}
			if lal := fo.LiteralAfterLoop; lal != nil {
				verifReach("fact:LiteralAfterLoop")
				found := false
				run := true // t[p:k] all in the loop set
				for k := p; k <= n; k++ {
					var here bool
					switch {
					case lal.String != "":
						here = verifPrefixAt(t, k, []rune(lal.String), lal.StringIgnoreCase)
					case len(lal.Chars) > 0:
						here = false
						if k < n {
							for _, c := range lal.Chars {
								here = verifOr(here, t[k] == c)
							}
						}
					default:
						here = k < n && t[k] == lal.Char
					}
					found = verifOr(found, verifAnd(run, here))
					if k < n {
						run = verifAnd(run, lal.LoopNode.Set.CharIn(t[k]))
					}
				}
				verifAssert("LiteralAfterLoop", found)
			}
			if ch := fo.LandmarkChain; ch != nil {
				verifReach("fact:LandmarkChain")
				verifAssert("LandmarkChain", verifLandmarksFrom(ch, 0, t, p))
			}
		}
		if fc := code.FcPrefix; fc != nil {
			verifReach("fact:FcPrefix")
			var c rune
			ok := true
			if !rtl {
				ok = p < n
				if ok {
					c = t[p]
				}
			} else {
				ok = p > 0
				if ok {
					c = t[p-1]
				}
			}
			if !ok {
				verifFail("FcPrefix", "a first-character set is published but the match is empty at the text edge")
			}
			if fc.CaseInsensitive {
				c = unicode.ToLower(c)
			}
			verifAssert("FcPrefix", fc.PrefixSet.CharIn(c))
		}
		if bm := code.BmPrefix; bm != nil {
			verifReach("fact:BmPrefix")
			pat, ci, _ := syntax.VerifBmPattern(bm)
			q := p
			if rtl {
				q = p - len(pat)
			}
			ok := q >= 0 && q+len(pat) <= n
			if ok {
				for i, c := range pat {
					x := t[q+i]
					if ci {
						x = unicode.ToLower(x)
					}
					ok = verifAnd(ok, x == c)
				}
			}
			verifAssert("BmPrefix", ok)
		}
		an := code.Anchors
		if an&syntax.AnchorBeginning != 0 {
			verifAssert("Anchors.Beginning", p == 0)
		}
		if an&syntax.AnchorStart != 0 {
			verifAssert("Anchors.Start", p == origin)
		}
		if an&syntax.AnchorEnd != 0 {
			verifAssert("Anchors.End", p == n)
		}
		if an&syntax.AnchorEndZ != 0 {
			verifAssert("Anchors.EndZ", verifEndZ(t, p))
		}
		if an&syntax.AnchorBol != 0 {
			verifAssert("Anchors.Bol", verifBol(t, p))
		}
	}
	verifReach("end")
}

func verifInFixedSet(fs syntax.FixedDistanceSet, c rune) bool {
	if len(fs.Chars) > 0 {
		in := false
		for _, x := range fs.Chars {
			in = verifOr(in, c == x)
		}
		if fs.Negated {
			return !in
		}
		return in
	}
	if fs.Range != nil {
		in := verifAnd(c >= fs.Range.First, c <= fs.Range.Last)
		if fs.Negated {
			return !in
		}
		return in
	}
	if fs.Set == nil {
		return false
	}
	return fs.Set.CharIn(c)
}

// verifLandmarksFrom: landmarks i.. occur in order at or after position from, each
// consuming only its minimum repeat (a necessary condition of any match).
func verifLandmarksFrom(ch *syntax.RequiredLandmarkChain, i int, t []rune, from int) bool {
	if i >= len(ch.Landmarks) {
		return true
	}
	res := false
	for q := from; q <= len(t); q++ {
		for _, alt := range ch.Landmarks[i].Alternatives {
			var here bool
			var w int
			if len(alt.Literal) > 0 {
				here = verifPrefixAt(t, q, alt.Literal, false)
				w = len(alt.Literal)
			} else if alt.Set != nil {
				w = alt.MinRepeat
				if w < 1 {
					w = 1
				}
				here = q+w <= len(t)
				if here {
					for k := 0; k < w; k++ {
						here = verifAnd(here, alt.Set.CharIn(t[q+k]))
					}
				}
			}
			if alt.RequireWhitespaceBefore {
				here = verifAnd(here, q > 0 && alt.LeadingWhitespaceSet != nil && alt.LeadingWhitespaceSet.CharIn(t[q-1]))
			}
			if alt.RequireWhitespaceAfter {
				here = verifAnd(here, q+w < len(t) && alt.TrailingWhitespaceSet != nil && alt.TrailingWhitespaceSet.CharIn(t[q+w]))
			}
			if verifIsFalse(here) {
				continue
			}
			res = verifOr(res, verifAnd(here, verifLandmarksFrom(ch, i+1, t, q+w)))
		}
	}
	return res
}
