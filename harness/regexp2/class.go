package regexp2

import (
	"github.com/dlclark/regexp2/v2/syntax"
)

// ---------------------------------------------------------------- C16: class membership = set algebra

var verifClsNode *syntax.RegexNode
var verifClsSpec *specNode

func VerifSetup_class() {
	cls := verifParam("pattern")
	opts := verifParamInt("options")
	tree, err := syntax.Parse(cls, syntax.ParseOptions{RegexOptions: syntax.RegexOptions(opts)})
	if err != nil {
		panic("parse: " + err.Error())
	}
	n := tree.Root
	for n != nil && (n.T == syntax.NtCapture || n.T == syntax.NtGroup) && len(n.Children) == 1 {
		n = n.Children[0]
	}
	verifClsNode = n
	verifClsSpec = verifParseSpec(verifParam("ast"))
	verifREs = nil
	for _, p := range []string{`\A` + cls + `\z`, cls + "+", "x*" + cls} {
		verifREs = append(verifREs, verifCompile(p, opts, verifParam("copts")))
	}
}

func VerifCheck_class() {
	r := verifRune("r")
	opts := verifParamInt("options")
	if opts&int(IgnoreCase) != 0 {
		verifAssume(verifCaseSimple(r))
	}
	want := verifSumInClass(verifClsSpec, r)
	n := verifClsNode
	switch n.T {
	case syntax.NtSet:
		verifReach("set")
		got := n.Set.CharIn(r)
		if got {
			verifReach("member")
		} else {
			verifReach("non-member")
		}
		verifAssert("CharIn==algebra", got == want)
	case syntax.NtOne:
		verifReach("reduced-to-one")
		verifAssert("One==algebra", (r == n.Ch) == want)
	case syntax.NtNotone:
		verifReach("reduced-to-notone")
		verifAssert("Notone==algebra", (r != n.Ch) == want)
	default:
		verifReach("other-node")
	}
	t := []rune{r}
	for i, re := range verifREs {
		ok, err := re.MatchRunes(t)
		if err != nil {
			verifFail("error", err.Error())
		}
		switch i {
		case 0:
			verifAssert("anchored-use==algebra", ok == want)
		case 1:
			verifAssert("loop-use==algebra", ok == want)
		default:
			verifAssert("prefix-use==algebra", ok == want)
		}
	}
	verifReach("end")
}
