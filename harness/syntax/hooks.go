package syntax

// VerifNoRewrite is consulted only by the patched copy of tree.go that the
// native replay build substitutes through -overlay (C05); in the symbolic
// interpreter the rewrite passes are intercepted instead.
var VerifNoRewrite bool

// VerifBmPattern exposes the Boyer-Moore prefix as data (the fact C04 checks).
func VerifBmPattern(b *BmPrefix) (pattern []rune, caseInsensitive, rightToLeft bool) {
	return b.pattern, b.caseInsensitive, b.rightToLeft
}
