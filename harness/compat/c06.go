package compat

import (
	"regexp"
	"strconv"
	"strings"

	regexp2 "github.com/dlclark/regexp2/v2"
)

// ---------------------------------------------------------------- C06: adapter == Go regexp

var verifA *Regexp
var verifG *regexp.Regexp

func VerifSetup_compat() {
	verifA = MustCompile(verifParam("pattern"), regexp2.RE2)
	verifG = regexp.MustCompile(verifParam("pattern"))
}

func verifEqInts(a, b []int) bool {
	if (a == nil) != (b == nil) || len(a) != len(b) {
		return false
	}
	for i := range a {
		if a[i] != b[i] {
			return false
		}
	}
	return true
}

func verifEqIntss(a, b [][]int) bool {
	if (a == nil) != (b == nil) || len(a) != len(b) {
		return false
	}
	for i := range a {
		if !verifEqInts(a[i], b[i]) {
			return false
		}
	}
	return true
}

func verifEqStrs(a, b []string) bool {
	if (a == nil) != (b == nil) || len(a) != len(b) {
		return false
	}
	ok := true
	for i := range a {
		ok = verifAnd(ok, a[i] == b[i])
	}
	return ok
}

func verifEqStrss(a, b [][]string) bool {
	if (a == nil) != (b == nil) || len(a) != len(b) {
		return false
	}
	ok := true
	for i := range a {
		ok = verifAnd(ok, verifEqStrs(a[i], b[i]))
	}
	return ok
}

func verifEqBytes(a, b []byte) bool {
	if (a == nil) != (b == nil) || len(a) != len(b) {
		return false
	}
	ok := true
	for i := range a {
		ok = verifAnd(ok, a[i] == b[i])
	}
	return ok
}

func verifEqBytess(a, b [][]byte) bool {
	if (a == nil) != (b == nil) || len(a) != len(b) {
		return false
	}
	ok := true
	for i := range a {
		ok = verifAnd(ok, verifEqBytes(a[i], b[i]))
	}
	return ok
}

func verifEqBytesss(a, b [][][]byte) bool {
	if (a == nil) != (b == nil) || len(a) != len(b) {
		return false
	}
	ok := true
	for i := range a {
		ok = verifAnd(ok, verifEqBytess(a[i], b[i]))
	}
	return ok
}

func VerifCheck_compat() {
	n := verifParamInt("n")
	var b []byte
	if ra := verifParam("runealphabet"); ra != "" {
		// runes of different UTF-8 widths from a small alphabet, each position a solver variable
		tab := []rune(ra)
		ix := ""
		for i := range tab {
			ix += string(rune(i + 1))
		}
		rs := make([]rune, n)
		for i := range rs {
			rs[i] = tab[int(verifByteIn("r"+strconv.Itoa(i), ix))-1]
		}
		b = []byte(string(rs))
	} else {
		b = make([]byte, n)
		for i := range b {
			b[i] = verifByte("b" + strconv.Itoa(i))
		}
	}
	s := string(b)
	a, g := verifA, verifG
	k := verifConcrete(verifInt("k", -1, 2))
	gi := g.FindStringSubmatchIndex(s)
	verifNoteInts("regexp", gi)
	verifNoteInts("adapter", a.FindStringSubmatchIndex(s))
	if gi != nil {
		verifReach("match")
	} else {
		verifReach("nomatch")
	}
	verifAssert("MatchString", a.MatchString(s) == g.MatchString(s))
	verifAssert("Match", a.Match(b) == g.Match(b))
	verifAssert("MatchReader", a.MatchReader(strings.NewReader(s)) == g.MatchReader(strings.NewReader(s)))
	verifAssert("FindStringSubmatchIndex", verifEqInts(a.FindStringSubmatchIndex(s), gi))
	verifAssert("FindStringIndex", verifEqInts(a.FindStringIndex(s), g.FindStringIndex(s)))
	verifAssert("FindIndex", verifEqInts(a.FindIndex(b), g.FindIndex(b)))
	verifAssert("FindSubmatchIndex", verifEqInts(a.FindSubmatchIndex(b), g.FindSubmatchIndex(b)))
	verifAssert("FindReaderIndex", verifEqInts(a.FindReaderIndex(strings.NewReader(s)), g.FindReaderIndex(strings.NewReader(s))))
	verifAssert("FindReaderSubmatchIndex", verifEqInts(a.FindReaderSubmatchIndex(strings.NewReader(s)), g.FindReaderSubmatchIndex(strings.NewReader(s))))
	verifAssert("FindString", a.FindString(s) == g.FindString(s))
	verifAssert("Find", verifEqBytes(a.Find(b), g.Find(b)))
	verifAssert("FindStringSubmatch", verifEqStrs(a.FindStringSubmatch(s), g.FindStringSubmatch(s)))
	verifAssert("FindSubmatch", verifEqBytess(a.FindSubmatch(b), g.FindSubmatch(b)))
	verifAssert("FindAllStringIndex", verifEqIntss(a.FindAllStringIndex(s, k), g.FindAllStringIndex(s, k)))
	verifAssert("FindAllIndex", verifEqIntss(a.FindAllIndex(b, k), g.FindAllIndex(b, k)))
	verifAssert("FindAllStringSubmatchIndex", verifEqIntss(a.FindAllStringSubmatchIndex(s, k), g.FindAllStringSubmatchIndex(s, k)))
	verifAssert("FindAllSubmatchIndex", verifEqIntss(a.FindAllSubmatchIndex(b, k), g.FindAllSubmatchIndex(b, k)))
	verifAssert("FindAllString", verifEqStrs(a.FindAllString(s, k), g.FindAllString(s, k)))
	verifAssert("FindAll", verifEqBytess(a.FindAll(b, k), g.FindAll(b, k)))
	verifAssert("FindAllStringSubmatch", verifEqStrss(a.FindAllStringSubmatch(s, k), g.FindAllStringSubmatch(s, k)))
	verifAssert("FindAllSubmatch", verifEqBytesss(a.FindAllSubmatch(b, k), g.FindAllSubmatch(b, k)))
	verifReach("end")
}

// ---------------------------------------------------------------- C02: the adapter reports what the wrapped Regexp reports

var verifInner *regexp2.Regexp

func VerifSetup_compatentry() {
	o := regexp2.RegexOptions(verifParamInt("options"))
	verifA = MustCompile(verifParam("pattern"), o)
	verifInner = regexp2.MustCompile(verifParam("pattern"), o)
}

// verifPairs: byte index pairs of all groups of m (-1 pairs for groups without a capture).
func verifPairs(m *regexp2.Match) []int {
	if m == nil {
		return nil
	}
	var out []int
	gs := m.Groups()
	for i := range gs {
		if len(gs[i].Captures) == 0 {
			out = append(out, -1, -1)
			continue
		}
		bi, bl := gs[i].ByteRange()
		out = append(out, bi, bi+bl)
	}
	return out
}

func VerifCheck_compatentry() {
	n := verifParamInt("n")
	var b []byte
	if ra := verifParam("runealphabet"); ra != "" {
		// runes of different UTF-8 widths from a small alphabet, each position a solver variable
		tab := []rune(ra)
		ix := ""
		for i := range tab {
			ix += string(rune(i + 1))
		}
		rs := make([]rune, n)
		for i := range rs {
			rs[i] = tab[int(verifByteIn("r"+strconv.Itoa(i), ix))-1]
		}
		b = []byte(string(rs))
	} else {
		b = make([]byte, n)
		for i := range b {
			if verifParam("mode") == "b" {
				b[i] = verifByte("b" + strconv.Itoa(i))
			} else {
				b[i] = verifByteIn("a"+strconv.Itoa(i), verifParam("alphabet"))
			}
		}
	}
	s := string(b)
	a, in := verifA, verifInner
	m, err := in.FindStringMatch(s)
	if err != nil {
		verifFail("error", err.Error())
	}
	want := verifPairs(m)
	verifNoteInts("regexp2", want)
	verifNoteInts("adapter", a.FindStringSubmatchIndex(s))
	if m != nil {
		verifReach("match")
	} else {
		verifReach("nomatch")
	}
	verifAssert("adapter/MatchString", a.MatchString(s) == (m != nil))
	verifAssert("adapter/Match", a.Match(b) == (m != nil))
	verifAssert("adapter/MatchReader", a.MatchReader(strings.NewReader(s)) == (m != nil))
	verifAssert("adapter/FindStringSubmatchIndex", verifEqInts(a.FindStringSubmatchIndex(s), want))
	verifAssert("adapter/FindSubmatchIndex", verifEqInts(a.FindSubmatchIndex(b), want))
	verifAssert("adapter/FindReaderSubmatchIndex", verifEqInts(a.FindReaderSubmatchIndex(strings.NewReader(s)), want))
	var want0 []int
	if m != nil {
		want0 = want[:2]
		verifAssert("adapter/FindString", a.FindString(s) == s[want[0]:want[1]])
	} else {
		verifAssert("adapter/FindString", a.FindString(s) == "")
	}
	verifAssert("adapter/FindStringIndex", verifEqInts(a.FindStringIndex(s), want0))
	verifAssert("adapter/FindIndex", verifEqInts(a.FindIndex(b), want0))
	verifAssert("adapter/FindReaderIndex", verifEqInts(a.FindReaderIndex(strings.NewReader(s)), want0))
	// the match sequence: FindNextMatch iteration minus empty matches adjacent to the preceding reported match
	var seq [][]int
	prevEnd := -1
	for k := 0; m != nil && k < n+3; k++ {
		p := verifPairs(m)
		if !(p[0] == p[1] && m.RuneIndex == prevEnd) {
			seq = append(seq, p)
			prevEnd = m.RuneIndex + m.RuneLength
		}
		m, err = in.FindNextMatch(m)
		if err != nil {
			verifFail("error", err.Error())
		}
	}
	for _, k := range []int{-1, 1, 2} {
		w := seq
		if k >= 0 && len(w) > k {
			w = w[:k]
		}
		var w0 [][]int
		for _, p := range w {
			w0 = append(w0, p[:2])
		}
		verifAssert("adapter/FindAllStringSubmatchIndex", verifEqIntss(a.FindAllStringSubmatchIndex(s, k), w))
		verifAssert("adapter/FindAllSubmatchIndex", verifEqIntss(a.FindAllSubmatchIndex(b, k), w))
		verifAssert("adapter/FindAllStringIndex", verifEqIntss(a.FindAllStringIndex(s, k), w0))
		verifAssert("adapter/FindAllIndex", verifEqIntss(a.FindAllIndex(b, k), w0))
		var ws []string
		for _, p := range w0 {
			ws = append(ws, s[p[0]:p[1]])
		}
		verifAssert("adapter/FindAllString", verifEqStrs(a.FindAllString(s, k), ws))
	}
	verifReach("end")
}
