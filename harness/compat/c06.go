package compat

import (
	"regexp"
	"strconv"
	"strings"

	regexp2 "github.com/dlclark/regexp2/v2"
)

// ---------------------------------------------------------------- C06: adapter == Go regexp

var verifA *Regexp
var verifG *regexp.Regexp

func VerifSetup_compat() {
	verifA = MustCompile(verifParam("pattern"), regexp2.RE2)
	verifG = regexp.MustCompile(verifParam("pattern"))
}

func verifEqInts(a, b []int) bool {
	if (a == nil) != (b == nil) || len(a) != len(b) {
		return false
	}
	for i := range a {
		if a[i] != b[i] {
			return false
		}
	}
	return true
}

func verifEqIntss(a, b [][]int) bool {
	if (a == nil) != (b == nil) || len(a) != len(b) {
		return false
	}
	for i := range a {
		if !verifEqInts(a[i], b[i]) {
			return false
		}
	}
	return true
}

func verifEqStrs(a, b []string) bool {
	if (a == nil) != (b == nil) || len(a) != len(b) {
		return false
	}
	ok := true
	for i := range a {
		ok = verifAnd(ok, a[i] == b[i])
	}
	return ok
}

func verifEqStrss(a, b [][]string) bool {
	if (a == nil) != (b == nil) || len(a) != len(b) {
		return false
	}
	ok := true
	for i := range a {
		ok = verifAnd(ok, verifEqStrs(a[i], b[i]))
	}
	return ok
}

func verifEqBytes(a, b []byte) bool {
	if (a == nil) != (b == nil) || len(a) != len(b) {
		return false
	}
	ok := true
	for i := range a {
		ok = verifAnd(ok, a[i] == b[i])
	}
	return ok
}

func verifEqBytess(a, b [][]byte) bool {
	if (a == nil) != (b == nil) || len(a) != len(b) {
		return false
	}
	ok := true
	for i := range a {
		ok = verifAnd(ok, verifEqBytes(a[i], b[i]))
	}
	return ok
}

func verifEqBytesss(a, b [][][]byte) bool {
	if (a == nil) != (b == nil) || len(a) != len(b) {
		return false
	}
	ok := true
	for i := range a {
		ok = verifAnd(ok, verifEqBytess(a[i], b[i]))
	}
	return ok
}

func VerifCheck_compat() {
	n := verifParamInt("n")
	b := make([]byte, n)
	for i := range b {
		b[i] = verifByte("b" + strconv.Itoa(i))
	}
	s := string(b)
	a, g := verifA, verifG
	k := verifConcrete(verifInt("k", -1, 2))
	gi := g.FindStringSubmatchIndex(s)
	verifNoteInts("regexp", gi)
	verifNoteInts("adapter", a.FindStringSubmatchIndex(s))
	if gi != nil {
		verifReach("match")
	} else {
		verifReach("nomatch")
	}
	verifAssert("MatchString", a.MatchString(s) == g.MatchString(s))
	verifAssert("Match", a.Match(b) == g.Match(b))
	verifAssert("MatchReader", a.MatchReader(strings.NewReader(s)) == g.MatchReader(strings.NewReader(s)))
	verifAssert("FindStringSubmatchIndex", verifEqInts(a.FindStringSubmatchIndex(s), gi))
	verifAssert("FindStringIndex", verifEqInts(a.FindStringIndex(s), g.FindStringIndex(s)))
	verifAssert("FindIndex", verifEqInts(a.FindIndex(b), g.FindIndex(b)))
	verifAssert("FindSubmatchIndex", verifEqInts(a.FindSubmatchIndex(b), g.FindSubmatchIndex(b)))
	verifAssert("FindReaderIndex", verifEqInts(a.FindReaderIndex(strings.NewReader(s)), g.FindReaderIndex(strings.NewReader(s))))
	verifAssert("FindReaderSubmatchIndex", verifEqInts(a.FindReaderSubmatchIndex(strings.NewReader(s)), g.FindReaderSubmatchIndex(strings.NewReader(s))))
	verifAssert("FindString", a.FindString(s) == g.FindString(s))
	verifAssert("Find", verifEqBytes(a.Find(b), g.Find(b)))
	verifAssert("FindStringSubmatch", verifEqStrs(a.FindStringSubmatch(s), g.FindStringSubmatch(s)))
	verifAssert("FindSubmatch", verifEqBytess(a.FindSubmatch(b), g.FindSubmatch(b)))
	verifAssert("FindAllStringIndex", verifEqIntss(a.FindAllStringIndex(s, k), g.FindAllStringIndex(s, k)))
	verifAssert("FindAllIndex", verifEqIntss(a.FindAllIndex(b, k), g.FindAllIndex(b, k)))
	verifAssert("FindAllStringSubmatchIndex", verifEqIntss(a.FindAllStringSubmatchIndex(s, k), g.FindAllStringSubmatchIndex(s, k)))
	verifAssert("FindAllSubmatchIndex", verifEqIntss(a.FindAllSubmatchIndex(b, k), g.FindAllSubmatchIndex(b, k)))
	verifAssert("FindAllString", verifEqStrs(a.FindAllString(s, k), g.FindAllString(s, k)))
	verifAssert("FindAll", verifEqBytess(a.FindAll(b, k), g.FindAll(b, k)))
	verifAssert("FindAllStringSubmatch", verifEqStrss(a.FindAllStringSubmatch(s, k), g.FindAllStringSubmatch(s, k)))
	verifAssert("FindAllSubmatch", verifEqBytesss(a.FindAllSubmatch(b, k), g.FindAllSubmatch(b, k)))
	verifReach("end")
}
