#!/usr/bin/env python3
# Regenerates the cost table of DESIGN.md 0.2 (between the COST_TABLE markers) from evidence/*.json.
import json, glob, re
rows=[]
for f in sorted(glob.glob('/verif/evidence/C*.json')):
    e=json.load(open(f)); c=e['coverage']
    q=c['queries']; fd=c.get('finite_domain_procedure',{})
    rows.append(f"| {e['property_id']} | {e['tier']} | {c['units']} | {c['states']} | {q['total']} ({q['sat']} sat / {q['unsat']} unsat / {q['unknown']} unknown) | {fd.get('path_conditions_decided','-')} | {c['solver_s']:.0f} s | {c['traces_validated_against_impl']} | {len(c.get('units_undecided') or [])} | {e['wall_s']:.0f} s |")
hdr='| id | tier | units | feasible path classes decided | z3 queries | path conditions decided by the finite-domain procedure | z3 time (all workers) | paths replayed natively | undecided units | wall (16 cores) |\n|---|---|---|---|---|---|---|---|---|---|'
table=hdr+'\n'+'\n'.join(rows)
p='/verif/DESIGN.md'
s=open(p).read()
s=re.sub(r'<!-- COST_TABLE_BEGIN -->.*?<!-- COST_TABLE_END -->', lambda m:'<!-- COST_TABLE_BEGIN -->\n'+table+'\n<!-- COST_TABLE_END -->', s, flags=re.S)
open(p,'w').write(s)
print(len(rows),'rows')
