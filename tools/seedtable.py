#!/usr/bin/env python3
# Regenerates the table of seeded changes in DESIGN.md (between the SEEDED_TABLE markers) from
# seeded/<id>/meta.json, notes.txt and the result-<prop>.txt files written by tools/runseeds.sh.
import json, os, glob, re
rows=[]
for d in sorted(glob.glob('/verif/seeded/*/')):
    sid=os.path.basename(d.rstrip('/'))
    try: meta=json.load(open(d+'meta.json'))
    except Exception: continue
    prop=meta.get('breaks_property')
    patch=open(d+'patch.diff').read() if os.path.exists(d+'patch.diff') else ''
    files=sorted(set(re.findall(r'^\+\+\+ b/(\S+)', patch, re.M)))
    res=[]
    for r in sorted(glob.glob(d+'result-*.txt')):
        t=open(r).read().split()
        # <id> <prop> <tier> exit=N violations=M wall=..
        if len(t)>=5:
            p,tier,ex,nv=t[1],t[2],t[3].split('=')[1],t[4].split('=')[1]
            verdict='caught' if ex=='1' and nv!='0' else ('BROKEN' if ex=='2' else 'missed')
            res.append(f"{p} {tier}: {verdict} ({nv})")
    what=meta.get('summary') or ''
    if not what:
        notes=meta.get('needs_to_manifest','')
        what=' '.join(notes.split())[:160]
    rows.append((sid,prop,', '.join(files),what,'; '.join(res) or 'not run yet',meta.get('strengthened','')))
out=['| seed | property | file(s) changed | what it needs to manifest (from the author\'s notes) | registered checks run against it | strengthening it led to |','|---|---|---|---|---|---|']
for r in rows:
    out.append('| '+' | '.join(x.replace('|','\\|') for x in r)+' |')
table='\n'.join(out)
p='/verif/DESIGN.md'
s=open(p).read()
if 'SEEDED_TABLE_BEGIN' in s:
    s=re.sub(r'<!-- SEEDED_TABLE_BEGIN -->.*?<!-- SEEDED_TABLE_END -->', lambda m:'<!-- SEEDED_TABLE_BEGIN -->\n'+table+'\n<!-- SEEDED_TABLE_END -->', s, flags=re.S)
else:
    s=s.replace('SEEDED_TABLE','<!-- SEEDED_TABLE_BEGIN -->\n'+table+'\n<!-- SEEDED_TABLE_END -->',1)
open(p,'w').write(s)
print(len(rows),'rows')
