#!/bin/bash
# tools/runseeds.sh [-t tier] <seed-id>[:<prop>,<prop>...] ...
# Runs the registered check(s) of each stored seeded change (seeded/<id>/patch.diff) against a scratch
# worktree of /repo's HEAD with the change applied (VERIF_REPO), writing evidence and replays to a scratch
# directory (GOSYM_OUT) so that /verif/evidence is never touched. Result lines go to stdout and to
# seeded/<id>/result-<prop>.txt; the full log to seeded/<id>/check-<prop>.log.
# Without a property list the property named in meta.json ("breaks_property") is used.
set -u
TIER=quick
if [ "${1:-}" = "-t" ]; then TIER=$2; shift 2; fi
export PATH=/opt/veriftools/go1.26.8/bin:$PATH GOFLAGS=-mod=mod GOPROXY=off GOSUMDB=off GOTOOLCHAIN=local
cd /verif || exit 2
go build -o bin/gosym ./cmd/gosym || exit 2
for SPEC in "$@"; do
  ID=${SPEC%%:*}
  D=/verif/seeded/$ID
  [ -f $D/patch.diff ] || { echo "$ID: no patch"; continue; }
  if [ "$SPEC" != "$ID" ]; then PROPS=$(echo "${SPEC#*:}" | tr ',' ' '); else PROPS=$(python3 -c "import json;print(json.load(open('$D/meta.json'))['breaks_property'])"); fi
  W=/tmp/seedrun-$ID; OUT=/var/tmp/seedout-$ID
  git -C /repo worktree remove --force $W >/dev/null 2>&1; rm -rf $OUT; mkdir -p $OUT
  git -C /repo worktree add --detach $W HEAD >/dev/null 2>&1 || { echo "$ID: cannot create worktree"; continue; }
  if ! git -C $W apply $D/patch.diff; then echo "$ID: patch does not apply to HEAD"; git -C /repo worktree remove --force $W; continue; fi
  for P in $PROPS; do
    VERIF_REPO=$W GOSYM_OUT=$OUT bin/gosym check $P $TIER > $D/check-$P.log 2>&1; RC=$?
    NV=$(grep -c '^VIOLATION' $D/check-$P.log)
    LINE="$ID $P $TIER exit=$RC violations=$NV $(grep '^gosym: .* wall=' $D/check-$P.log | sed 's/.*\(wall=[0-9.]*s\).*/\1/')"
    echo "$LINE" | tee $D/result-$P.txt
    grep '  violation:' $D/check-$P.log | head -2 | cut -c1-260
    grep '^BROKEN' $D/check-$P.log | head -2 | cut -c1-260
  done
  git -C /repo worktree remove --force $W >/dev/null 2>&1
  rm -rf $OUT
done
