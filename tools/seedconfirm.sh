#!/bin/bash
# tools/seedconfirm.sh <seed-id> <agent-worktree> <property>
# Independently confirms a seeded change produced by a sub-agent (in <agent-worktree>/.seeded/) in a FRESH
# scratch worktree of /repo's HEAD: the patch applies, the library builds, the unedited suite passes with it,
# the demonstration fails with it and passes without it. Only then is it stored under /verif/seeded/<seed-id>/
# (patch.diff, demonstration, notes.txt, meta.json). The scratch worktree is removed afterwards.
set -u
ID=$1; SRC=$2; PROP=$3
export PATH=/opt/veriftools/go1.26.8/bin:$PATH GOFLAGS=-mod=mod GOPROXY=off GOSUMDB=off GOTOOLCHAIN=local
[ -f $SRC/.seeded/patch.diff ] || { echo "$ID: no patch.diff in $SRC/.seeded"; exit 2; }
PKGDIR=$(cd $SRC && find . -name zz_seeded_demo_test.go -not -path "./.seeded/*" | head -1 | xargs -r dirname)
[ -z "$PKGDIR" ] && PKGDIR=.
W=/tmp/confirm-$ID
git -C /repo worktree remove --force $W >/dev/null 2>&1
git -C /repo worktree add --detach $W HEAD >/dev/null 2>&1 || { echo "cannot create worktree"; exit 2; }
R_APPLY=fail; R_SUITE=fail; R_WITH=unknown; R_WITHOUT=unknown
if git -C $W apply $SRC/.seeded/patch.diff; then
  R_APPLY=ok
  ( cd $W && go build ./... && go test -vet=off -count=1 ./... >/tmp/confirm-$ID.suite 2>&1 ) && R_SUITE=pass
  cp $SRC/.seeded/zz_seeded_demo_test.go $W/$PKGDIR/
  ( cd $W/$PKGDIR && timeout 600 go test -vet=off -count=1 -run 'Seeded' . >/tmp/confirm-$ID.with 2>&1 ) && R_WITH=pass || R_WITH=fail
  git -C $W apply -R $SRC/.seeded/patch.diff
  ( cd $W/$PKGDIR && timeout 600 go test -vet=off -count=1 -run 'Seeded' . >/tmp/confirm-$ID.without 2>&1 ) && R_WITHOUT=pass || R_WITHOUT=fail
fi
git -C /repo worktree remove --force $W >/dev/null 2>&1
echo "confirm $ID: apply=$R_APPLY suite-with-change=$R_SUITE demo-with-change=$R_WITH demo-without-change=$R_WITHOUT (demo dir $PKGDIR)"
if [ "$R_SUITE" = pass ] && [ "$R_WITH" = fail ] && [ "$R_WITHOUT" = pass ]; then
  D=/verif/seeded/$ID; mkdir -p $D
  cp $SRC/.seeded/patch.diff $SRC/.seeded/zz_seeded_demo_test.go $D/
  cp $SRC/.seeded/notes.txt $D/notes.txt 2>/dev/null
  python3 - "$ID" "$PROP" "$PKGDIR" <<'PY'
import json,sys,os
id,prop,pkg=sys.argv[1:4]
d=f'/verif/seeded/{id}'
notes=open(d+'/notes.txt').read() if os.path.exists(d+'/notes.txt') else ''
meta={"seed":id,"breaks_property":prop,"source":"independent sub-agent given only the property text and a scratch worktree (round 3)",
 "needs_to_manifest":notes[:1800],
 "confirmed":{"patch_applies_to_HEAD":True,"suite_passes_with_change":True,"demo_fails_with_change":True,"demo_passes_without_change":True,"demo_package_dir":pkg},
 "commands":[f"tools/seedconfirm.sh {id} <agent-worktree> {prop}", f"tools/runseeds.sh {id}"]}
json.dump(meta,open(d+'/meta.json','w'),indent=1)
PY
  echo "stored $D"
else
  echo "NOT stored"; tail -5 /tmp/confirm-$ID.suite /tmp/confirm-$ID.with /tmp/confirm-$ID.without 2>/dev/null | cut -c1-200
  exit 1
fi
