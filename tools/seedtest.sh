#!/bin/bash
# tools/seedtest.sh <seed-id> <worktree-with-.seeded> <property>...
# 1. confirms the seeded change independently in a fresh scratch worktree:
#    suite passes with it, the demonstration fails with it and passes without it;
# 2. stores it under /verif/seeded/<seed-id>/;
# 3. applies it to /repo, runs the given property checks (quick), and undoes it.
set -u
ID=$1; SRC=$2; shift 2
export PATH=/opt/veriftools/go1.26.8/bin:$PATH GOFLAGS=-mod=mod GOPROXY=off GOSUMDB=off GOTOOLCHAIN=local
D=/verif/seeded/$ID; mkdir -p $D
cp $SRC/.seeded/patch.diff $D/patch.diff
cp $SRC/.seeded/zz_seeded_demo_test.go $D/ 2>/dev/null
cp $SRC/.seeded/notes.txt $D/notes.txt 2>/dev/null
PKGDIR=$(cd $SRC && find . -name zz_seeded_demo_test.go -not -path "./.seeded/*" | head -1 | xargs dirname)
[ -z "$PKGDIR" ] && PKGDIR=.
W=/tmp/confirm-$ID
git -C /repo worktree remove --force $W >/dev/null 2>&1
git -C /repo worktree add --detach $W HEAD >/dev/null 2>&1 || { echo "cannot create worktree"; exit 2; }
R_SUITE=fail; R_DEMO_WITH=unknown; R_DEMO_WITHOUT=unknown
( cd $W && git apply $D/patch.diff ) || { echo "patch does not apply"; git -C /repo worktree remove --force $W; exit 2; }
( cd $W && go build ./... && go test -vet=off -count=1 ./... >/tmp/confirm-$ID.suite 2>&1 ) && R_SUITE=pass
cp $D/zz_seeded_demo_test.go $W/$PKGDIR/
( cd $W/$PKGDIR && go test -vet=off -count=1 -run 'Seeded' . >/tmp/confirm-$ID.with 2>&1 ) && R_DEMO_WITH=pass || R_DEMO_WITH=fail
( cd $W && git apply -R $D/patch.diff )
( cd $W/$PKGDIR && go test -vet=off -count=1 -run 'Seeded' . >/tmp/confirm-$ID.without 2>&1 ) && R_DEMO_WITHOUT=pass || R_DEMO_WITHOUT=fail
git -C /repo worktree remove --force $W >/dev/null 2>&1
echo "confirm $ID: suite-with-change=$R_SUITE demo-with-change=$R_DEMO_WITH demo-without-change=$R_DEMO_WITHOUT (demo package dir $PKGDIR)"
RESULTS=""
if [ "$R_SUITE" = pass ] && [ "$R_DEMO_WITH" = fail ] && [ "$R_DEMO_WITHOUT" = pass ]; then
  git -C /repo apply $D/patch.diff || { echo "cannot apply to /repo"; exit 2; }
  for P in "$@"; do
    /verif/bin/gosym check $P quick > $D/check-$P.log 2>&1; RC=$?
    NV=$(grep -c '^VIOLATION' $D/check-$P.log)
    echo "  check $P: exit=$RC violations=$NV  $(grep 'violation:' $D/check-$P.log | head -2 | cut -c1-300)"
    RESULTS="$RESULTS $P:exit=$RC:violations=$NV"
  done
  git -C /repo checkout -- .
  git -C /repo status --short | head -3
fi
python3 - "$ID" "$R_SUITE" "$R_DEMO_WITH" "$R_DEMO_WITHOUT" "$PKGDIR" "$RESULTS" "$@" <<'PY'
import json,sys,os
id,suite,dw,dwo,pkg,res=sys.argv[1:7]; props=sys.argv[7:]
d=f'/verif/seeded/{id}'
notes=open(d+'/notes.txt').read() if os.path.exists(d+'/notes.txt') else ''
meta={"seed":id,"breaks_property":props[0] if props else None,"source":"independent sub-agent given only the property text and a scratch worktree",
 "needs_to_manifest":notes[:1500],"confirmed":{"suite_passes_with_change":suite=="pass","demo_fails_with_change":dw=="fail","demo_passes_without_change":dwo=="pass","demo_package_dir":pkg},
 "checks_run":[dict(zip(["property","exit","violations"],[x.split(':')[0],x.split(':')[1].split('=')[1],x.split(':')[2].split('=')[1]])) for x in res.split()],
 "commands":["tools/seedtest.sh "+" ".join(sys.argv[1:2])+" <worktree> "+" ".join(props)]}
json.dump(meta,open(d+'/meta.json','w'),indent=1)
PY
